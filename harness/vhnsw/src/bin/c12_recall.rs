//! C12 / part `recall` — the documented recall workloads of
//! `rs/anda_db_hnsw/tests/recall.rs` (same data seeds, sizes, metrics,
//! configurations and floors; generators copied verbatim in `vhnsw::recall`),
//! each built with the hook-fixed layer generator over a DECLARED finite set
//! of layer seeds, plus — for the persistence workload — every crash prefix of
//! the incremental flush that follows the last 64 inserts, each followed by
//! load + re-index of the 64 unflushed documents.
//!
//! Recall is a statistic: this part is exhaustive only over the declared
//! layer seeds and over the crash prefixes, nothing is claimed outside.

use anda_db_hnsw::{DistanceMetric, HnswConfig, HnswError};
use serde_json::{Value, json};
use std::collections::BTreeMap;
use vcore::{Run, Violation, util};
use vhnsw::hist::{no_panic, quiet_panics};
use vhnsw::model::Fail;
use vhnsw::recall::{Bench, SplitMix64, measure};
use vhnsw::sut::{MemStore, Write, commit_pos, flush_journal, load};

const WORKLOADS: [&str; 7] = ["fresh_euclidean", "fresh_cosine", "deletions", "heavy_deletions", "churn", "persistence", "persistence_crash"];

/// Margin allowed below the documented floor after an interrupted flush +
/// re-index (fixed by the property).
const CRASH_MARGIN: f64 = 0.05;

#[derive(Clone, Debug)]
struct Measurement {
    workload: &'static str,
    seed: u64,
    /// e.g. "avg", "min", "avg_after_50pct"
    what: String,
    value: f64,
    /// value must be >= floor
    floor: f64,
}

impl Measurement {
    fn ok(&self) -> bool {
        self.value >= self.floor
    }
}

#[derive(Default)]
struct Out {
    measurements: Vec<Measurement>,
    /// soundness failures and hard assertion failures (len mismatch, ...)
    hard: Vec<(String, String)>,
    queries: u64,
}

fn unsound(e: vhnsw::recall::Unsound) -> Fail {
    Fail::new("unsound", e.0)
}

fn m(out: &mut Out, workload: &'static str, seed: u64, what: &str, value: f64, floor: f64) {
    out.measurements.push(Measurement { workload, seed, what: what.to_string(), value, floor });
}

/// The persistence-crash fixture: image after a completed flush of the first
/// 536 documents, the journal of the incremental flush after the last 64.
struct CrashFixture {
    before: MemStore,
    journal: Vec<Write>,
    pending: Vec<(u64, Vec<f32>)>,
    data: BTreeMap<u64, Vec<f32>>,
    queries: Vec<Vec<f32>>,
}

fn run_workload(workload: &'static str, seed: u64, out: &mut Out) -> Result<Option<CrashFixture>, Fail> {
    anda_db_utils::verif::set_random_seed(Some(seed));
    match workload {
        "fresh_euclidean" => {
            let (bench, _) = Bench::build_with(Bench::config(DistanceMetric::Euclidean, 32), 1000, 50, 42, usize::MAX);
            let (avg, min) = bench.measure(&bench.index).map_err(unsound)?;
            out.queries += bench.queries.len() as u64;
            m(out, workload, seed, "avg", avg, 0.95);
            m(out, workload, seed, "min", min, 0.60);
        }
        "fresh_cosine" => {
            let (bench, _) = Bench::build_with(Bench::config(DistanceMetric::Cosine, 24), 800, 40, 7, usize::MAX);
            let (avg, min) = bench.measure(&bench.index).map_err(unsound)?;
            out.queries += bench.queries.len() as u64;
            m(out, workload, seed, "avg", avg, 0.95);
            m(out, workload, seed, "min", min, 0.60);
        }
        "deletions" => {
            let (mut bench, _) = Bench::build_with(Bench::config(DistanceMetric::Euclidean, 32), 1000, 50, 99, usize::MAX);
            let removed: Vec<u64> = (1..=1000u64).filter(|id| id % 5 == 0).collect();
            for id in &removed {
                if !bench.index.remove(*id, 2_000) {
                    out.hard.push(("remove_false".into(), format!("remove({id}) returned false")));
                }
                bench.data.remove(id);
            }
            // "removed doc still returned" is the ghost-doc check of measure()
            let (avg, min) = bench.measure(&bench.index).map_err(unsound)?;
            out.queries += bench.queries.len() as u64;
            m(out, workload, seed, "avg_after_deletions", avg, 0.90);
            m(out, workload, seed, "min_after_deletions", min, 0.50);
        }
        "heavy_deletions" => {
            let (mut bench, _) = Bench::build_with(
                HnswConfig {
                    dimension: 32,
                    distance_metric: DistanceMetric::Euclidean,
                    max_connections: 6,
                    ef_construction: 40,
                    ef_search: 40,
                    reconnect_on_delete: true,
                    ..Default::default()
                },
                2000,
                50,
                4242,
                usize::MAX,
            );
            let (avg_before, _) = bench.measure(&bench.index).map_err(unsound)?;
            for id in 1..=2000u64 {
                if id % 2 == 0 {
                    if !bench.index.remove(id, 2_000) {
                        out.hard.push(("remove_false".into(), format!("remove({id}) returned false")));
                    }
                    bench.data.remove(&id);
                }
            }
            let (avg50, min50) = bench.measure(&bench.index).map_err(unsound)?;
            m(out, workload, seed, "avg_after_50pct_minus_before", avg50 - avg_before, -0.06);
            m(out, workload, seed, "min_after_50pct", min50, 0.50);
            for id in 1..=2000u64 {
                if id % 2 == 1 && id % 5 != 0 {
                    if !bench.index.remove(id, 3_000) {
                        out.hard.push(("remove_false".into(), format!("remove({id}) returned false")));
                    }
                    bench.data.remove(&id);
                }
            }
            if bench.index.len() != bench.data.len() {
                out.hard.push(("len".into(), format!("len()={} but {} documents remain", bench.index.len(), bench.data.len())));
            }
            let (avg80, min80) = bench.measure(&bench.index).map_err(unsound)?;
            out.queries += 3 * bench.queries.len() as u64;
            m(out, workload, seed, "avg_after_80pct_minus_before", avg80 - avg_before, -0.08);
            m(out, workload, seed, "min_after_80pct", min80, 0.50);
        }
        "churn" => {
            let (mut bench, _) = Bench::build_with(Bench::config(DistanceMetric::Euclidean, 16), 600, 30, 777, usize::MAX);
            let mut rng = SplitMix64(0xC0FFEE);
            for round in 0..5u64 {
                let victims: Vec<u64> = (1..=600u64).filter(|id| (id + round) % 3 == 0).collect();
                for id in &victims {
                    if !bench.index.remove(*id, round) {
                        out.hard.push(("remove_false".into(), format!("remove({id}) returned false")));
                    }
                    bench.data.remove(id);
                }
                for id in &victims {
                    let v = rng.next_vector(16);
                    bench
                        .index
                        .insert_f32(*id, v.clone(), round)
                        .map_err(|e| Fail::new("reinsert_failed", format!("re-insert({id}) failed: {e}")))?;
                    bench.data.insert(*id, v);
                }
            }
            let (avg, min) = bench.measure(&bench.index).map_err(unsound)?;
            out.queries += bench.queries.len() as u64;
            m(out, workload, seed, "avg_after_churn", avg, 0.93);
            m(out, workload, seed, "min_after_churn", min, 0.60);
        }
        "persistence" => {
            let (bench, _) = Bench::build_with(Bench::config(DistanceMetric::Euclidean, 16), 600, 30, 1234, usize::MAX);
            let (avg_before, _) = bench.measure(&bench.index).map_err(unsound)?;
            let mut store = MemStore::default();
            let journal = flush_journal(&bench.index, 5_000).map_err(|e| Fail::new("flush_error", e))?;
            store.apply_all(&journal);
            let reloaded = load(&store).map_err(|e| Fail::new("load_error", e))?;
            if reloaded.len() != bench.index.len() {
                out.hard.push(("len".into(), format!("reloaded.len()={} but index.len()={}", reloaded.len(), bench.index.len())));
            }
            let (avg_after, _) = bench.measure(&reloaded).map_err(unsound)?;
            out.queries += 2 * bench.queries.len() as u64;
            m(out, workload, seed, "avg_after_reload", avg_after, 0.95);
            m(out, workload, seed, "minus_abs_change_by_reload", -(avg_before - avg_after).abs(), -0.02);
        }
        "persistence_crash" => {
            // first 536 documents, completed flush; last 64, journalled flush
            let (bench, pending) = Bench::build_with(Bench::config(DistanceMetric::Euclidean, 16), 600, 30, 1234, 536);
            let mut before = MemStore::default();
            let j0 = flush_journal(&bench.index, 5_000).map_err(|e| Fail::new("flush_error", e))?;
            before.apply_all(&j0);
            for (id, v) in &pending {
                bench.index.insert_f32(*id, v.clone(), *id).map_err(|e| Fail::new("insert_failed", format!("insert({id}) failed: {e}")))?;
            }
            let journal = flush_journal(&bench.index, 6_000).map_err(|e| Fail::new("flush_error", e))?;
            return Ok(Some(CrashFixture { before, journal, pending, data: bench.data, queries: bench.queries }));
        }
        other => panic!("unknown workload {other}"),
    }
    Ok(None)
}

fn crash_seed(seed: u64, k: usize) -> u64 {
    seed.wrapping_mul(100_000).wrapping_add(7 + k as u64)
}

/// One crash prefix of the persistence workload: load the image, re-index the
/// 64 unflushed documents (the repair scan: insert, AlreadyExists ignored),
/// measure recall.
fn crash_prefix(fx: &CrashFixture, seed: u64, k: usize, out: &mut Out) -> Result<(), Fail> {
    anda_db_utils::verif::set_random_seed(Some(crash_seed(seed, k)));
    let image = fx.before.with_prefix(&fx.journal, k);
    let index = load(&image).map_err(|e| Fail::new("load_error", e))?;
    let committed = commit_pos(&fx.journal).is_some_and(|c| k > c);
    if committed {
        // a completed (incremental) persistence round trip: the documented floor itself
        if index.len() != fx.data.len() {
            out.hard.push(("len".into(), format!("after the commit record: len()={} but {} documents", index.len(), fx.data.len())));
        }
        let (avg, _) = measure(&index, DistanceMetric::Euclidean, &fx.data, &fx.queries, 10).map_err(unsound)?;
        out.queries += fx.queries.len() as u64;
        m(out, "persistence_crash", seed, &format!("avg_committed_no_reindex@{k}"), avg, 0.95);
    }
    for (id, v) in &fx.pending {
        match index.insert_f32(*id, v.clone(), 7_000) {
            Ok(()) | Err(HnswError::AlreadyExists { .. }) => {}
            Err(e) => return Err(Fail::new("recover_error", format!("repair insert({id}) failed: {e}"))),
        }
    }
    if index.len() != fx.data.len() {
        out.hard.push(("len".into(), format!("after re-index: len()={} but {} documents", index.len(), fx.data.len())));
    }
    let (avg, _) = measure(&index, DistanceMetric::Euclidean, &fx.data, &fx.queries, 10).map_err(unsound)?;
    out.queries += fx.queries.len() as u64;
    m(out, "persistence_crash", seed, &format!("avg_after_reindex@{k}"), avg, 0.95 - CRASH_MARGIN);
    Ok(())
}

fn what_class(what: &str) -> &str {
    what.split('@').next().unwrap_or(what)
}

fn report(run: &mut Run, workload: &str, seed: u64, k: Option<usize>, out: &Out, res: &Result<(), Fail>) {
    let replay = json!({"workload": workload, "seed": seed, "k": k});
    if let Err(f) = res {
        run.violation(Violation {
            signature: format!("C12|recall|{workload}|{}", f.kind),
            summary: format!("workload {workload} layer-seed {seed} prefix {k:?}: {}", f.detail),
            replay: replay.clone(),
        });
    }
    for (kind, detail) in &out.hard {
        run.violation(Violation {
            signature: format!("C12|recall|{workload}|{kind}"),
            summary: format!("workload {workload} layer-seed {seed} prefix {k:?}: {detail}"),
            replay: replay.clone(),
        });
    }
    for x in &out.measurements {
        if !x.ok() {
            run.violation(Violation {
                signature: format!("C12|recall|{workload}|below_floor|{}", what_class(&x.what)),
                summary: format!("workload {workload} layer-seed {seed}: {} = {:.4} is below the floor {:.4}", x.what, x.value, x.floor),
                replay: replay.clone(),
            });
        }
    }
}

fn main() {
    let mut run = Run::from_args("C12", "recall", "fault_enumeration");
    quiet_panics();

    if let Some(file) = run.replay_file.clone() {
        let v: Value = serde_json::from_slice(&std::fs::read(&file).expect("read replay")).expect("json");
        let r = &v["replay"];
        let name = r["workload"].as_str().expect("workload");
        let workload: &'static str = WORKLOADS.iter().find(|w| **w == name).expect("known workload");
        let seed = r["seed"].as_u64().expect("seed");
        let mut out = Out::default();
        let mut fixture = None;
        let res = no_panic(|| run_workload(workload, seed, &mut out)).map(|f| fixture = f);
        report(&mut run, workload, seed, None, &out, &res);
        for x in &out.measurements {
            println!("replay {workload} seed {seed}: {} = {:.4} (floor {:.4})", x.what, x.value, x.floor);
        }
        if let Some(fx) = fixture {
            let ks: Vec<usize> = match r["k"].as_u64() {
                Some(k) => vec![k as usize],
                None => (0..=fx.journal.len()).collect(),
            };
            for k in ks {
                let mut out = Out::default();
                let res = no_panic(|| crash_prefix(&fx, seed, k, &mut out));
                report(&mut run, workload, seed, Some(k), &out, &res);
                for x in &out.measurements {
                    println!("replay {workload} seed {seed}: {} = {:.4} (floor {:.4})", x.what, x.value, x.floor);
                }
            }
        }
        run.finish();
    }

    let seeds: Vec<u64> = run.tier.pick((1..=2).collect(), (1..=16).collect());
    let mut work: Vec<(&'static str, u64)> = Vec::new();
    // quick: the crash-prefix sweep of the persistence workload runs for the
    // first declared seed only (it is the expensive one); thorough: all seeds.
    let crash_seeds: Vec<u64> = run.tier.pick(vec![seeds[0]], seeds.clone());
    for w in WORKLOADS {
        for s in &seeds {
            if w != "persistence_crash" || crash_seeds.contains(s) {
                work.push((w, *s));
            }
        }
    }
    // longest first
    work.sort_by_key(|(w, _)| match *w {
        "fresh_euclidean" | "deletions" => 0,
        "fresh_cosine" | "heavy_deletions" => 1,
        _ => 2,
    });
    work.reverse();
    let results = util::par_map(work, util::n_threads(), |(w, s)| {
        let mut out = Out::default();
        let mut fixture = None;
        let res = no_panic(|| run_workload(w, s, &mut out)).map(|f| fixture = f);
        (w, s, out, res, fixture)
    });

    let mut table: BTreeMap<String, Vec<(u64, f64, f64)>> = BTreeMap::new();
    let mut fixtures: Vec<(u64, CrashFixture)> = Vec::new();
    for (w, s, out, res, fixture) in results {
        report(&mut run, w, s, None, &out, &res);
        run.add("evaluations", out.queries);
        run.add("workload_runs", 1);
        for x in &out.measurements {
            table.entry(format!("{}.{}", x.workload, x.what)).or_default().push((x.seed, x.value, x.floor));
            run.distinct(util::fnv64(format!("{}|{}|{}", x.workload, x.seed, x.what).as_bytes()));
        }
        if let Some(fx) = fixture {
            fixtures.push((s, fx));
        }
    }

    // every crash prefix of the incremental flush, for every declared seed
    let mut crash_work: Vec<(usize, usize)> = Vec::new();
    let mut journal_lens = Vec::new();
    for (i, (_, fx)) in fixtures.iter().enumerate() {
        journal_lens.push(fx.journal.len());
        for k in 0..=fx.journal.len() {
            crash_work.push((i, k));
        }
    }
    let deadline = std::time::Instant::now() + std::time::Duration::from_secs_f64(run.remaining_s());
    let fixtures_ref = &fixtures;
    let crash_results = util::par_map(crash_work, util::n_threads(), |(i, k)| {
        if std::time::Instant::now() > deadline {
            return None;
        }
        let (seed, fx) = &fixtures_ref[i];
        let mut out = Out::default();
        let res = no_panic(|| crash_prefix(fx, *seed, k, &mut out));
        Some((*seed, k, out, res))
    });
    let mut worst_crash: BTreeMap<u64, (f64, usize)> = BTreeMap::new();
    let mut skipped = 0u64;
    for r in crash_results {
        let Some((seed, k, out, res)) = r else {
            skipped += 1;
            continue;
        };
        report(&mut run, "persistence_crash", seed, Some(k), &out, &res);
        run.add("evaluations", out.queries);
        run.add("crash_prefixes", 1);
        run.distinct(util::fnv64(format!("persistence_crash|{seed}|{k}").as_bytes()));
        for x in &out.measurements {
            if x.what.starts_with("avg_after_reindex") {
                let e = worst_crash.entry(seed).or_insert((x.value, k));
                if x.value < e.0 {
                    *e = (x.value, k);
                }
            }
            let class = what_class(&x.what).to_string();
            let t = table.entry(format!("persistence_crash.{class}.worst_prefix")).or_default();
            match t.iter_mut().find(|e| e.0 == seed) {
                Some(e) => {
                    if x.value < e.1 {
                        e.1 = x.value;
                    }
                }
                None => t.push((seed, x.value, x.floor)),
            }
        }
    }
    if skipped > 0 {
        run.cap_hit(&format!("time budget: {skipped} crash prefixes of the persistence workload not run"));
    }

    // summary: per assertion, the floor and the worst value over the declared seeds
    let mut summary = serde_json::Map::new();
    for (name, rows) in &table {
        let worst = rows.iter().cloned().fold((0u64, f64::INFINITY, 0.0), |a, b| if b.1 < a.1 { b } else { a });
        summary.insert(
            name.clone(),
            json!({"floor": worst.2, "worst_value": (worst.1 * 1e4).round() / 1e4, "worst_seed": worst.0, "seeds": rows.len()}),
        );
    }
    for (name, rows) in table.iter().take(4) {
        let mut rows = rows.clone();
        rows.sort_by_key(|r| r.0);
        run.sample(json!({"assertion": name, "floor": rows[0].2, "value_by_layer_seed": rows.iter().map(|r| json!([r.0, (r.1 * 1e4).round() / 1e4])).collect::<Vec<_>>()}));
    }
    run.set("floors_vs_worst_over_declared_seeds", Value::Object(summary));
    run.set("layer_seeds", json!(seeds));
    run.set("layer_seeds_crash_sweep", json!(crash_seeds));
    run.set("incremental_flush_writes_by_seed", json!(journal_lens));
    run.set("crash_margin", json!(CRASH_MARGIN));
    run.rule(
        "the six test functions of tests/recall.rs (fresh Euclidean 1000x32, fresh Cosine 800x24, 20% deletions, heavy deletions with \
         reconnect_on_delete, 5 rounds of delete/re-insert churn, flush+load round trip) with their data seeds, sizes and floors, each run \
         once per declared layer seed (quick: seeds 1-2, thorough: 1-16; the crash-prefix sweep: quick seed 1 only, thorough all 16); recall@10 vs exact brute force with the file's epsilon tie rule; \
         persistence_crash: documents 1..536 flushed to completion, 537..600 inserted, the next flush journalled, EVERY prefix of that \
         journal (nodes, ids, metadata) loaded, the 64 unflushed documents re-inserted (AlreadyExists ignored), average recall >= 0.95 - \
         0.05; prefixes past the commit record additionally >= 0.95 without re-index; evaluations = queries scored against brute force; \
         distinct = (workload, seed, assertion) and (seed, prefix) cases",
    );
    run.assume("recall is a statistic: the floors are checked for the declared layer seeds only (the repo's own test draws the layers from the unseeded thread RNG, i.e. one unrecorded sample per run)");
    run.assume("entry-point replacement after deleting the entry point follows papaya/RandomState iteration order and is not controlled; it can move the deletion/churn recall figures in the last digits between runs");
    run.finish();
}

//! C12 / part `hist` — soundness of vector search over ALL operation
//! histories up to a depth: {insert, remove, re-insert with the same or a
//! different vector, flush+load} over a fixed 7-vector set, every metric, both
//! neighbour-selection strategies, reconnect_on_delete on/off, dims {2, 8}.
//! After every history: queries = every stored vector + 3 out-of-distribution
//! ones, k = 1..n+1 and 10, compared with the brute-force VecModel. Stage
//! `beam` varies the search parameters (ef_search 1, 2, 3, 10, 11, 50 x
//! ef_construction 1, 3): when layer 0 is strongly connected and the beam
//! max(ef_search, k) covers all n nodes the answer must be the exact top-k;
//! with a narrower beam only soundness, order and the min(k, R) count hold.

use serde_json::json;
use std::collections::BTreeSet;
use vcore::{Run, Violation, util};
use vhnsw::enumerate::{Item, for_each_history, items};
use vhnsw::hist::{BASES, Op, World, base_ops, no_panic, ops_short, quiet_panics};
use vhnsw::model::{Fail, Tally};
use vhnsw::sut::{Cfg, all_cfgs};

struct Outcome {
    result: Result<(), Fail>,
    tally: Tally,
    model_key: u64,
    live: usize,
    last_class: &'static str,
    /// the highest layer present equals the configured cap (max_layers - 1)
    cap_reached: bool,
}

/// Executes base + ops from scratch on a fresh index; the oracle runs after
/// the last operation (or after every operation when `check_all`).
fn run_history(cfg: &Cfg, base: &str, seed: u64, ops: &[Op], check_all: bool) -> Outcome {
    let mut tally = Tally::default();
    let mut model_key = 0;
    let mut live = 0;
    let mut last_class = "base";
    let mut cap_reached = false;
    let result = no_panic(|| {
        let mut w = World::new(cfg, seed)?;
        for op in base_ops(base) {
            w.apply(&op)?;
        }
        if check_all || ops.is_empty() {
            w.check(&mut tally)?;
        }
        for (i, op) in ops.iter().enumerate() {
            last_class = w.classify(op);
            w.apply(op)?;
            if check_all || i + 1 == ops.len() {
                w.check(&mut tally)?;
            }
        }
        model_key = w.model.key();
        live = w.model.len();
        cap_reached = !w.model.is_empty() && w.index.stats().max_layer == cfg.max_layers.saturating_sub(1);
        Ok(())
    });
    Outcome { result, tally, model_key, live, last_class, cap_reached }
}

fn violation(cfg: &Cfg, base: &str, seed: u64, ops: &[Op], class: &str, f: &Fail) -> Violation {
    Violation {
        signature: format!("C12|hist|{}|after={}", f.kind, class),
        summary: format!(
            "[{}] base {} layer-seed {} history [{}]: {}",
            cfg.label(),
            base,
            seed,
            ops_short(ops),
            f.detail
        ),
        replay: json!({"cfg": cfg, "base": base, "seed": seed, "ops": ops}),
    }
}

#[derive(Default)]
struct Agg {
    histories: u64,
    searches: u64,
    short: u64,
    nonempty: u64,
    full_bound: u64,
    exact_required: u64,
    cap_reached: u64,
    states: BTreeSet<u64>,
    nontrivial: BTreeSet<u64>,
    violations: Vec<Violation>,
    sample: Option<serde_json::Value>,
    complete: bool,
}

fn run_item(item: &Item, deadline: std::time::Instant) -> Agg {
    let mut agg = Agg::default();
    let label = item.cfg.label();
    let done = for_each_history(item, &mut |ops| {
        if std::time::Instant::now() > deadline {
            return false;
        }
        let out = run_history(&item.cfg, item.base, item.seed, ops, false);
        agg.histories += 1;
        agg.searches += out.tally.searches;
        agg.short += out.tally.short_results;
        agg.nonempty += out.tally.nonempty_results;
        agg.full_bound += out.tally.full_bound;
        agg.exact_required += out.tally.exact_required;
        agg.cap_reached += out.cap_reached as u64;
        match &out.result {
            Ok(()) => {
                let key = util::fnv64(format!("{label}|{}|{}", ops.len(), out.model_key).as_bytes());
                agg.states.insert(key);
                if out.live >= 2 {
                    agg.nontrivial.insert(key);
                }
                if agg.sample.is_none()
                    && out.live >= 3
                    && ops.len() >= 3
                    && ops.iter().any(|o| matches!(o, Op::Remove { .. }))
                    && ops.iter().any(|o| matches!(o, Op::Insert { v: 1, .. }))
                    && ops.iter().any(|o| matches!(o, Op::FlushLoad))
                {
                    agg.sample = Some(json!({
                        "cfg": label, "base": item.base, "layer_seed": item.seed, "history": ops_short(ops),
                        "live_vectors": out.live, "searches_checked": out.tally.searches,
                        "searches_returning_fewer_than_min_k_live": out.tally.short_results,
                    }));
                }
            }
            Err(f) => {
                let v = violation(&item.cfg, item.base, item.seed, ops, out.last_class, f);
                if agg.violations.len() < 4 || !agg.violations.iter().any(|x| x.signature == v.signature) {
                    agg.violations.push(v);
                }
            }
        }
        true
    });
    agg.complete = done;
    agg
}

fn main() {
    let mut run = Run::from_args("C12", "hist", "fault_enumeration");
    quiet_panics();

    if let Some(file) = run.replay_file.clone() {
        let v: serde_json::Value = serde_json::from_slice(&std::fs::read(&file).expect("read replay")).expect("json");
        let r = &v["replay"];
        let cfg: Cfg = serde_json::from_value(r["cfg"].clone()).expect("cfg");
        let base = r["base"].as_str().expect("base").to_string();
        let seed = r["seed"].as_u64().expect("seed");
        let ops: Vec<Op> = serde_json::from_value(r["ops"].clone()).expect("ops");
        let out = run_history(&cfg, &base, seed, &ops, true);
        run.add("evaluations", out.tally.searches);
        println!("replay [{}] base {} seed {} [{}] -> {:?}", cfg.label(), base, seed, ops_short(&ops), out.result);
        if let Err(f) = &out.result {
            run.violation(violation(&cfg, &base, seed, &ops, out.last_class, f));
        }
        run.finish();
    }

    // Stages: (name, configurations, layer seeds, [(operations, bases)]).
    //  dims  - every dimension 2..=64 (SIMD lanes of 8 + remainder), short histories from the full base
    //  main  - dims {2,8}, tight graph regime: quick <= 3 operations from all bases + 4 from b7 at dim 2; thorough <= 4 with layer seeds {1,2}, 5 with seed 1
    //  roomy - thorough only: second graph regime, <= 4 operations
    let all: Vec<&'static str> = BASES.to_vec();
    let all_dims: Vec<usize> = (2..=64).collect();
    let dims_cfgs: Vec<Cfg> = all_cfgs(&all_dims, false).into_iter().filter(|c| !c.reconnect_on_delete).collect();
    let tight = all_cfgs(&[2, 8], false);
    let roomy: Vec<Cfg> = all_cfgs(&[2, 8], true).into_iter().filter(|c| c.max_connections == 4).collect();
    //  layercap - small max_layers (1, 2; thorough also 3 and scale_factor 3) so that the layer generator's
    //             upper clamp is actually reached (measured: histories_at_layer_cap) before flush+load
    let ec = [anda_db_hnsw::DistanceMetric::Euclidean, anda_db_hnsw::DistanceMetric::Cosine];
    let cap_quick = vhnsw::sut::layer_cap_cfgs(&[2], &ec, &[(1, None), (2, None)]);
    let cap_thorough = vhnsw::sut::layer_cap_cfgs(&[2, 8], &vhnsw::sut::METRICS, &[(1, None), (2, None), (3, None), (3, Some(3.0)), (4, Some(3.0))]);
    //  beam - the search-parameter axis: ef_search in {1, 2, k, k+1 for k in {1,2,10}, default 50} = {1,2,3,10,11,50} x
    //         ef_construction in {1, 3} on the tight graph (M=2); k = 1..n+1 and 10 come from the oracle's sweep
    let beam_of = |base: &[Cfg], efs: &[usize], efc: &[usize]| -> Vec<Cfg> {
        let mut out = Vec::new();
        for c in base {
            for &ef_search in efs {
                for &ef_construction in efc {
                    if (ef_search, ef_construction) != (c.ef_search, c.ef_construction) {
                        out.push(Cfg { ef_search, ef_construction, ..c.clone() });
                    }
                }
            }
        }
        out
    };
    let beam_quick = beam_of(&all_cfgs(&[2], false), &[1, 2, 3, 10, 11, 50], &[1, 3]);
    let beam_thorough = beam_of(&all_cfgs(&[2, 8], false), &[1, 2, 3, 10, 11, 50], &[1, 2, 3, 8]);
    type Stage = (&'static str, Vec<Cfg>, Vec<u64>, Vec<(usize, Vec<&'static str>)>);
    let stages: Vec<Stage> = run.tier.pick(
        vec![
            ("dims", dims_cfgs.clone(), vec![1], vec![(0, vec!["b7"]), (1, vec!["b7"])]),
            ("layercap", cap_quick.clone(), vec![1], vec![(0, all.clone()), (1, all.clone()), (2, all.clone()), (3, all.clone())]),
            ("beam", beam_quick.clone(), vec![1], vec![(0, all.clone()), (1, all.clone()), (2, all.clone())]),
            ("main", tight.clone(), vec![1], vec![(0, all.clone()), (1, all.clone()), (2, all.clone()), (3, all.clone())]),
            ("main", tight.iter().filter(|c| c.dim == 2).cloned().collect(), vec![1], vec![(4, vec!["b7"])]),
        ],
        vec![
            ("dims", dims_cfgs.clone(), vec![1, 2], vec![(0, vec!["b4", "b7"]), (1, vec!["b4", "b7"]), (2, vec!["b4", "b7"])]),
            ("layercap", cap_thorough.clone(), vec![1, 2, 3], (0..=3).map(|d| (d, all.clone())).collect()),
            ("beam", beam_thorough.clone(), vec![1, 2], (0..=3).map(|d| (d, all.clone())).collect()),
            ("roomy", roomy.clone(), vec![1], (0..=4).map(|d| (d, all.clone())).collect()),
            ("main", tight.clone(), vec![1, 2], (0..=4).map(|d| (d, all.clone())).collect()),
            ("main", tight.clone(), vec![1], vec![(5, all.clone())]),
        ],
    );
    let mut completed: Vec<String> = Vec::new();
    let mut states: BTreeSet<u64> = BTreeSet::new();
    let mut short_seen = false;
    let mut n_cfgs = BTreeSet::new();
    let mut all_seeds = BTreeSet::new();

    'stages: for (stage, cfgs, seeds, plan) in stages {
        for c in &cfgs {
            n_cfgs.insert(c.label());
        }
        all_seeds.extend(seeds.iter().copied());
        for (depth, bases) in plan {
            if !run.in_budget() {
                run.cap_hit(&format!("time budget: stage {stage}, histories of {depth} operations not started"));
                break 'stages;
            }
            let work = items(&cfgs, &bases, &seeds, depth);
            let deadline = std::time::Instant::now() + std::time::Duration::from_secs_f64(run.remaining_s());
            let aggs: Vec<Agg> = util::par_map(work, util::n_threads(), |item| run_item(&item, deadline));
            let mut complete = true;
            let mut samples_here = 0;
            let mut last_sample_cfg: Option<serde_json::Value> = None;
            for a in aggs {
                complete &= a.complete;
                run.add("histories", a.histories);
                run.add("transitions", if depth > 0 { a.histories } else { 0 });
                run.add("evaluations", a.searches);
                run.add("searches_nonempty", a.nonempty);
                run.add("searches_required_to_return_min_k_n", a.full_bound);
                run.add("searches_required_to_be_exact_top_k", a.exact_required);
                if stage == "beam" {
                    run.add("beam_stage_histories", a.histories);
                    run.add("beam_stage_searches_required_to_be_exact_top_k", a.exact_required);
                }
                short_seen |= a.short > 0;
                if stage == "layercap" {
                    run.add("layercap_histories", a.histories);
                    run.add("layercap_histories_at_layer_cap", a.cap_reached);
                }
                states.extend(a.states);
                for k in a.nontrivial {
                    run.distinct(k);
                }
                for v in a.violations {
                    run.violation(v);
                }
                if let Some(s) = a.sample {
                    // at most two per (stage, depth), taken from different configurations
                    if samples_here < 2 && last_sample_cfg.as_ref() != Some(&s["cfg"]) {
                        last_sample_cfg = Some(s["cfg"].clone());
                        run.sample(s);
                        samples_here += 1;
                    }
                }
            }
            if complete {
                completed.push(format!("{stage}: {depth} ops, bases {bases:?}, {} configurations, layer seeds {seeds:?}", cfgs.len()));
            } else {
                run.cap_hit(&format!("time budget: stage {stage}, histories of {depth} operations not completed"));
                break 'stages;
            }
        }
    }
    run.add("states", states.len() as u64);
    run.set("completed", json!(completed));
    run.set("layer_seeds", json!(all_seeds));
    run.set("configurations", json!(n_cfgs.len()));
    run.set("bases", json!(BASES));
    // informational (the property only bounds results from above): in the tight
    // regime the beam really is too narrow for some queries
    run.set("some_searches_returned_fewer_than_min_k_live", json!(short_seen));
    run.rule(
        "every history of exactly d operations (d and bases: see `completed`) from each base (empty, ids 1-4 inserted, ids 1-7 inserted) over \
         {insert(id,a|b) for ids not in the index (a re-insert when the id was there before; b = a different vector), remove(id) for ids in \
         the index, flush+load}; 7 fixed vectors x 2 variants incl. an exact duplicate, an opposite and a zero vector; x dims {2,8} x 4 \
         metrics x 2 selection strategies x reconnect_on_delete on/off (thorough: x 2 graph regimes) x declared layer seeds, plus a stage with small max_layers (1,2; thorough also 3,4 with scale_factor 3) in which the layer cap is really reached \
         (counter layercap_histories_at_layer_cap), plus a stage over EVERY dimension 2..=64 (short histories from the full base; SIMD lane remainder paths); each history is \
         executed from scratch on the real HnswIndex and after its last operation every stored vector + 3 out-of-distribution queries are \
         searched with k=1..n+1 and compared with the VecModel, incl. completeness: at least min(k, R) results, R = fewest live nodes reachable over layer-0 edges from any live node (read off the graph; R = n on a strongly connected layer 0, counter searches_required_to_return_min_k_n; ef_search = 2 < k in the tight regime), and exactness: when R = n and the documented layer-0 beam max(ef_search, k) >= n the result is THE exact top-k (min(k, n) results whose sorted distances equal the smallest brute-force distances; counter searches_required_to_be_exact_top_k) - for a narrower beam the property promises soundness, distance order and the min(k, R) count only; k sweeps 1..n+1 and 10; stage beam varies the search parameters: ef_search in {1,2,3,10,11,50} (= 1, 2, k, k+1 for k in {1,2,10}, default) x ef_construction in {1,3} (thorough {1,2,3,8}) on the tight graph, histories of <= 2 (thorough 3) operations; states = distinct (configuration, depth, live set + vectors); distinct \
         non-trivial = states with >= 2 live vectors",
    );
    run.assume("layer assignment is exhaustive only over the declared layer seeds (verif hook), not over all random draws");
    run.assume(
        "the replacement entry point after removing the entry point is picked in papaya/RandomState iteration order among equal-layer nodes; \
         that choice is not controlled by the harness (soundness must hold for every choice)",
    );
    run.assume("single-threaded use of the index; the distance oracle is the documented formula evaluated in f64 on the bf16-rounded stored vector");
    run.finish();
}

//! C12 / part `hist` — soundness of vector search over ALL operation
//! histories up to a depth: {insert, remove, re-insert with the same or a
//! different vector, flush+load} over a fixed 7-vector set, every metric, both
//! neighbour-selection strategies, reconnect_on_delete on/off, dims {2, 8}.
//! After every history: queries = every stored vector + 3 out-of-distribution
//! ones, k = 1..n+1, compared with the brute-force VecModel.

use serde_json::json;
use std::collections::BTreeSet;
use vcore::{Run, Violation, util};
use vhnsw::enumerate::{Item, for_each_history, items};
use vhnsw::hist::{BASES, Op, World, base_ops, no_panic, ops_short, quiet_panics};
use vhnsw::model::{Fail, Tally};
use vhnsw::sut::{Cfg, all_cfgs};

struct Outcome {
    result: Result<(), Fail>,
    tally: Tally,
    model_key: u64,
    live: usize,
    last_class: &'static str,
}

/// Executes base + ops from scratch on a fresh index; the oracle runs after
/// the last operation (or after every operation when `check_all`).
fn run_history(cfg: &Cfg, base: &str, seed: u64, ops: &[Op], check_all: bool) -> Outcome {
    let mut tally = Tally::default();
    let mut model_key = 0;
    let mut live = 0;
    let mut last_class = "base";
    let result = no_panic(|| {
        let mut w = World::new(cfg, seed)?;
        for op in base_ops(base) {
            w.apply(&op)?;
        }
        if check_all || ops.is_empty() {
            w.check(&mut tally)?;
        }
        for (i, op) in ops.iter().enumerate() {
            last_class = w.classify(op);
            w.apply(op)?;
            if check_all || i + 1 == ops.len() {
                w.check(&mut tally)?;
            }
        }
        model_key = w.model.key();
        live = w.model.len();
        Ok(())
    });
    Outcome { result, tally, model_key, live, last_class }
}

fn violation(cfg: &Cfg, base: &str, seed: u64, ops: &[Op], class: &str, f: &Fail) -> Violation {
    Violation {
        signature: format!("C12|hist|{}|after={}", f.kind, class),
        summary: format!(
            "[{}] base {} layer-seed {} history [{}]: {}",
            cfg.label(),
            base,
            seed,
            ops_short(ops),
            f.detail
        ),
        replay: json!({"cfg": cfg, "base": base, "seed": seed, "ops": ops}),
    }
}

#[derive(Default)]
struct Agg {
    histories: u64,
    searches: u64,
    short: u64,
    nonempty: u64,
    states: BTreeSet<u64>,
    nontrivial: BTreeSet<u64>,
    violations: Vec<Violation>,
    sample: Option<serde_json::Value>,
    complete: bool,
}

fn run_item(item: &Item, deadline: std::time::Instant) -> Agg {
    let mut agg = Agg::default();
    let label = item.cfg.label();
    let done = for_each_history(item, &mut |ops| {
        if std::time::Instant::now() > deadline {
            return false;
        }
        let out = run_history(&item.cfg, item.base, item.seed, ops, false);
        agg.histories += 1;
        agg.searches += out.tally.searches;
        agg.short += out.tally.short_results;
        agg.nonempty += out.tally.nonempty_results;
        match &out.result {
            Ok(()) => {
                let key = util::fnv64(format!("{label}|{}|{}", ops.len(), out.model_key).as_bytes());
                agg.states.insert(key);
                if out.live >= 2 {
                    agg.nontrivial.insert(key);
                }
                if agg.sample.is_none()
                    && out.live >= 3
                    && ops.iter().any(|o| matches!(o, Op::Remove { .. }))
                    && ops.iter().any(|o| matches!(o, Op::FlushLoad))
                {
                    agg.sample = Some(json!({
                        "cfg": label, "base": item.base, "layer_seed": item.seed, "history": ops_short(ops),
                        "live_vectors": out.live, "searches_checked": out.tally.searches,
                        "searches_returning_fewer_than_min_k_live": out.tally.short_results,
                    }));
                }
            }
            Err(f) => {
                let v = violation(&item.cfg, item.base, item.seed, ops, out.last_class, f);
                if agg.violations.len() < 4 || !agg.violations.iter().any(|x| x.signature == v.signature) {
                    agg.violations.push(v);
                }
            }
        }
        true
    });
    agg.complete = done;
    agg
}

fn main() {
    let mut run = Run::from_args("C12", "hist", "fault_enumeration");
    quiet_panics();

    if let Some(file) = run.replay_file.clone() {
        let v: serde_json::Value = serde_json::from_slice(&std::fs::read(&file).expect("read replay")).expect("json");
        let r = &v["replay"];
        let cfg: Cfg = serde_json::from_value(r["cfg"].clone()).expect("cfg");
        let base = r["base"].as_str().expect("base").to_string();
        let seed = r["seed"].as_u64().expect("seed");
        let ops: Vec<Op> = serde_json::from_value(r["ops"].clone()).expect("ops");
        let out = run_history(&cfg, &base, seed, &ops, true);
        run.add("evaluations", out.tally.searches);
        println!("replay [{}] base {} seed {} [{}] -> {:?}", cfg.label(), base, seed, ops_short(&ops), out.result);
        if let Err(f) = &out.result {
            run.violation(violation(&cfg, &base, seed, &ops, out.last_class, f));
        }
        run.finish();
    }

    // quick: every history of <= 3 operations from all bases, 4 operations
    // from the two non-empty bases; thorough: <= 5 operations, two graph
    // regimes, two layer seeds.
    let seeds: Vec<u64> = run.tier.pick(vec![1], vec![1, 2]);
    let cfgs = all_cfgs(&[2, 8], run.tier.pick(false, true));
    let all: Vec<&'static str> = BASES.to_vec();
    let plan: Vec<(usize, Vec<&'static str>)> = run.tier.pick(
        vec![(0, all.clone()), (1, all.clone()), (2, all.clone()), (3, all.clone()), (4, vec!["b4", "b7"])],
        (0..=5).map(|d| (d, all.clone())).collect(),
    );
    let mut completed: Vec<String> = Vec::new();

    for (depth, bases) in plan {
        if !run.in_budget() {
            run.cap_hit(&format!("time budget: histories of {depth} operations not started"));
            break;
        }
        let work = items(&cfgs, &bases, &seeds, depth);
        let deadline = std::time::Instant::now() + std::time::Duration::from_secs_f64(run.remaining_s());
        let aggs: Vec<Agg> = util::par_map(work, util::n_threads(), |item| run_item(&item, deadline));
        let mut complete = true;
        let mut states = BTreeSet::new();
        for a in aggs {
            complete &= a.complete;
            run.add("histories", a.histories);
            run.add("transitions", if depth > 0 { a.histories } else { 0 });
            run.add("evaluations", a.searches);
            run.add("searches_nonempty", a.nonempty);
            run.add("searches_fewer_than_min_k_live", a.short);
            states.extend(a.states);
            for k in a.nontrivial {
                run.distinct(k);
            }
            for v in a.violations {
                run.violation(v);
            }
            if let Some(s) = a.sample {
                run.sample(s);
            }
        }
        run.add("states", states.len() as u64);
        if complete {
            completed.push(format!("{depth} ops: bases {bases:?}"));
        } else {
            run.cap_hit(&format!("time budget: histories of {depth} operations not completed"));
            break;
        }
    }
    run.set("completed", json!(completed));
    run.set("layer_seeds", json!(seeds));
    run.set("configurations", json!(cfgs.len()));
    run.set("bases", json!(BASES));
    run.rule(
        "every history of exactly d operations (d and bases: see `completed`) from each base (empty, ids 1-4 inserted, ids 1-7 inserted) over \
         {insert(id,a|b) for ids not in the index (a re-insert when the id was there before; b = a different vector), remove(id) for ids in \
         the index, flush+load}; 7 fixed vectors x 2 variants incl. an exact duplicate, an opposite and a zero vector; x dims {2,8} x 4 \
         metrics x 2 selection strategies x reconnect_on_delete on/off (thorough: x 2 graph regimes) x declared layer seeds; each history is \
         executed from scratch on the real HnswIndex and after its last operation every stored vector + 3 out-of-distribution queries are \
         searched with k=1..n+1 and compared with the VecModel; states = distinct (configuration, depth, live set + vectors); distinct \
         non-trivial = states with >= 2 live vectors",
    );
    run.assume("layer assignment is exhaustive only over the declared layer seeds (verif hook), not over all random draws");
    run.assume(
        "the replacement entry point after removing the entry point is picked in papaya/RandomState iteration order among equal-layer nodes; \
         that choice is not controlled by the harness (soundness must hold for every choice)",
    );
    run.assume("single-threaded use of the index; the distance oracle is the documented formula evaluated in f64 on the bf16-rounded stored vector");
    run.finish();
}

//! C12 / part `kernel` — the distance kernels behind every reported distance:
//! `DistanceMetric::{compute, compute_f32, compute_mixed}` (bf16 x bf16,
//! f32 x f32, f32 query x bf16 stored) for every metric and EVERY dimension
//! 1..=64 (plus 65..=80, 127..=129 beyond the property's range), against the
//! documented formula evaluated in f64 on exactly the values the kernel sees.
//!
//! Inputs per dimension (all declared, no sampling): a position-coded pair
//! (every coordinate carries a different value, so pairing the wrong lanes
//! changes the result), every one-hot vector e_i against the position-coded
//! vector (every coordinate position i of every dimension, both argument
//! orders), the special cases zero / identical / opposite / sub-epsilon norm /
//! large magnitude, and 4 seeded pairs of f32 values that are not
//! bf16-representable.
//!
//! Tolerance. The kernels accumulate in f32 with 8 partial sums; the crate
//! documents the result as accurate "well within bf16 quantization noise"
//! (one bf16 half-ulp = 2^-9 = 1.95e-3 relative). The check uses the standard
//! f32 summation bound instead, 2·(n+8)·2^-24·(sum of |terms|) — at most
//! 1.7e-5 relative for n <= 130, i.e. >100x tighter than bf16 noise yet never
//! exceeded by a correct f32 evaluation in any summation order. Cosine: the
//! same bound three times (dot and two norms, ratio <= 1) as an absolute error.
//! Agreement of the three entry points on bf16-exact inputs follows (each is
//! within the bound of the same reference) and is counted separately.

use anda_db_hnsw::{DistanceMetric, half::bf16};
use serde_json::json;
use vcore::{Run, Violation, util};
use vhnsw::hist::{SplitMix64, no_panic, quiet_panics};
use vhnsw::model::Fail;
use vhnsw::sut::METRICS;

const U: f64 = 5.960464477539063e-8; // 2^-24, unit roundoff of f32

/// (documented formula in f64, allowed absolute error of an f32 evaluation)
fn reference(metric: DistanceMetric, a: &[f32], b: &[f32]) -> (f64, f64) {
    let n = a.len() as f64;
    let gamma = 2.0 * (n + 8.0) * U;
    let it = || a.iter().zip(b.iter()).map(|(x, y)| (*x as f64, *y as f64));
    match metric {
        DistanceMetric::Euclidean => {
            let d = it().map(|(x, y)| (x - y) * (x - y)).sum::<f64>().sqrt();
            (d, gamma * d)
        }
        DistanceMetric::Manhattan => {
            let d = it().map(|(x, y)| (x - y).abs()).sum::<f64>();
            (d, gamma * d)
        }
        DistanceMetric::InnerProduct => {
            let d = -it().map(|(x, y)| x * y).sum::<f64>();
            let mag = it().map(|(x, y)| (x * y).abs()).sum::<f64>();
            (d, gamma * mag)
        }
        DistanceMetric::Cosine => {
            let dot = it().map(|(x, y)| x * y).sum::<f64>();
            let na = it().map(|(x, _)| x * x).sum::<f64>().sqrt();
            let nb = it().map(|(_, y)| y * y).sum::<f64>().sqrt();
            if na < f32::EPSILON as f64 || nb < f32::EPSILON as f64 {
                (1.0, 0.0)
            } else {
                (1.0 - (dot / (na * nb)).clamp(-1.0, 1.0), 3.0 * gamma + 4.0 * U)
            }
        }
    }
}

fn to_bf16(v: &[f32]) -> Vec<bf16> {
    v.iter().map(|x| bf16::from_f32(*x)).collect()
}
fn widen(v: &[bf16]) -> Vec<f32> {
    v.iter().map(|x| x.to_f32()).collect()
}
fn bits(v: &[f32]) -> Vec<u32> {
    v.iter().map(|x| x.to_bits()).collect()
}

const ENTRIES: [&str; 3] = ["compute", "compute_f32", "compute_mixed"];

/// Calls one public entry point on (a, b); returns what the kernel was given
/// (after the bf16 rounding that entry point implies) and its answer.
fn call(metric: DistanceMetric, entry: &str, a: &[f32], b: &[f32]) -> (Vec<f32>, Vec<f32>, Result<f32, String>) {
    match entry {
        "compute" => {
            let (x, y) = (to_bf16(a), to_bf16(b));
            (widen(&x), widen(&y), metric.compute(&x, &y).map_err(|e| e.to_string()))
        }
        "compute_f32" => (a.to_vec(), b.to_vec(), metric.compute_f32(a, b).map_err(|e| e.to_string())),
        "compute_mixed" => {
            let y = to_bf16(b);
            (a.to_vec(), widen(&y), metric.compute_mixed(a, &y).map_err(|e| e.to_string()))
        }
        other => panic!("unknown entry {other}"),
    }
}

fn check_one(metric: DistanceMetric, entry: &str, a: &[f32], b: &[f32]) -> Result<f32, Fail> {
    no_panic(|| {
        let (x, y, got) = call(metric, entry, a, b);
        let got = got.map_err(|e| Fail::new("error", format!("{metric:?}.{entry} on two vectors of dimension {} failed: {e}", a.len())))?;
        let (want, tol) = reference(metric, &x, &y);
        if !got.is_finite() || (got as f64 - want).abs() > tol + 1e-30 {
            return Err(Fail::new(
                "value",
                format!(
                    "{metric:?}.{entry}, dimension {}: returned {got:e}, the documented formula gives {want:e} (allowed f32 accumulation error {tol:e}); a = {x:?}, b = {y:?}",
                    a.len()
                ),
            ));
        }
        Ok(got)
    })
}

/// The declared input pairs of one dimension: (shape class, a, b).
fn pairs(n: usize) -> Vec<(&'static str, Vec<f32>, Vec<f32>)> {
    let w: Vec<f32> = (0..n).map(|i| (i + 1) as f32 * 0.25).collect();
    let v: Vec<f32> = (0..n).map(|i| 1.0 - ((i * 7) % 11) as f32 * 0.5).collect();
    let mut out = vec![("position_coded", w.clone(), v.clone())];
    for i in 0..n {
        let mut e = vec![0.0f32; n];
        e[i] = 3.0;
        out.push(("one_hot", e, w.clone()));
    }
    out.push(("zero", vec![0.0; n], w.clone()));
    out.push(("identical", w.clone(), w.clone()));
    out.push(("opposite", w.clone(), w.iter().map(|x| -x).collect()));
    out.push(("sub_epsilon_norm", vec![1e-12; n], w.clone()));
    out.push(("large", w.iter().map(|x| x * 1024.0).collect(), v.iter().map(|x| x * 4096.0).collect()));
    let mut rng = SplitMix64(0xD157 + n as u64);
    for _ in 0..4 {
        let a: Vec<f32> = (0..n).map(|_| rng.next_f32() * 4.0 - 2.0).collect();
        let b: Vec<f32> = (0..n).map(|_| rng.next_f32() * 4.0 - 2.0).collect();
        out.push(("seeded", a, b));
    }
    out
}

fn violation(metric: DistanceMetric, entry: &str, class: &str, a: &[f32], b: &[f32], f: &Fail) -> Violation {
    Violation {
        signature: format!("C12|kernel|{metric:?}|{entry}|{}|{class}", f.kind),
        summary: f.detail.clone(),
        replay: json!({"metric": metric, "entry": entry, "class": class, "a_bits": bits(a), "b_bits": bits(b)}),
    }
}

#[derive(Default)]
struct Agg {
    evaluations: u64,
    agreement_triples: u64,
    agreement_bit_identical: u64,
    mismatch_pairs: u64,
    violations: Vec<Violation>,
    distinct: Vec<u64>,
}

fn run_dim(n: usize) -> Agg {
    let mut agg = Agg::default();
    for (class, a, b) in pairs(n) {
        for metric in METRICS {
            for (x, y) in [(&a, &b), (&b, &a)] {
                let mut got = Vec::new();
                for entry in ENTRIES {
                    agg.evaluations += 1;
                    match check_one(metric, entry, x, y) {
                        Ok(g) => got.push(g),
                        Err(f) => {
                            if !agg.violations.iter().any(|v| v.signature == violation(metric, entry, class, x, y, &f).signature) {
                                agg.violations.push(violation(metric, entry, class, x, y, &f));
                            }
                        }
                    }
                }
                // the three entry points on the SAME (bf16-exact) values
                let (xr, yr) = (widen(&to_bf16(x)), widen(&to_bf16(y)));
                let trio: Vec<Result<f32, Fail>> = ENTRIES.iter().map(|e| check_one(metric, e, &xr, &yr)).collect();
                agg.evaluations += 3;
                agg.agreement_triples += 1;
                for (e, r) in ENTRIES.iter().zip(&trio) {
                    if let Err(f) = r {
                        let v = violation(metric, e, class, &xr, &yr, f);
                        if !agg.violations.iter().any(|o| o.signature == v.signature) {
                            agg.violations.push(v);
                        }
                    }
                }
                if let [Ok(p), Ok(q), Ok(r)] = &trio[..] {
                    if p.to_bits() == q.to_bits() && q.to_bits() == r.to_bits() {
                        agg.agreement_bit_identical += 1;
                    }
                }
                agg.distinct.push(util::fnv64(format!("{metric:?}|{n}|{class}|{:?}", bits(x)).as_bytes()));
            }
        }
    }
    // a dimension mismatch is refused by every entry point (never a value, never a panic)
    if n <= 17 {
        for m in 0..=18usize {
            if m == n {
                continue;
            }
            let (a, b) = (vec![0.5f32; n], vec![0.25f32; m]);
            for metric in METRICS {
                for entry in ENTRIES {
                    agg.evaluations += 1;
                    agg.mismatch_pairs += 1;
                    let r = no_panic(|| Ok(call(metric, entry, &a, &b).2));
                    let bad = match r {
                        Ok(Err(_)) => None,
                        Ok(Ok(v)) => Some(Fail::new("dimension_mismatch_accepted", format!("{metric:?}.{entry} on dimensions {n} and {m} returned {v} instead of DimensionMismatch"))),
                        Err(f) => Some(f),
                    };
                    if let Some(f) = bad {
                        let v = violation(metric, entry, "dimension_mismatch", &a, &b, &f);
                        if !agg.violations.iter().any(|o| o.signature == v.signature) {
                            agg.violations.push(v);
                        }
                    }
                }
            }
        }
    }
    agg
}

fn main() {
    let mut run = Run::from_args("C12", "kernel", "exploration");
    quiet_panics();

    if let Some(file) = run.replay_file.clone() {
        let v: serde_json::Value = serde_json::from_slice(&std::fs::read(&file).expect("read replay")).expect("json");
        let r = &v["replay"];
        let metric: DistanceMetric = serde_json::from_value(r["metric"].clone()).expect("metric");
        let entry = r["entry"].as_str().expect("entry").to_string();
        let class = r["class"].as_str().unwrap_or("replay").to_string();
        let unbits = |k: &str| -> Vec<f32> { r[k].as_array().expect("bits").iter().map(|x| f32::from_bits(x.as_u64().expect("u32") as u32)).collect() };
        let (a, b) = (unbits("a_bits"), unbits("b_bits"));
        run.add("evaluations", 1);
        if a.len() != b.len() {
            let res = no_panic(|| Ok(call(metric, &entry, &a, &b).2));
            println!("replay {metric:?}.{entry} dims {} vs {} -> {res:?}", a.len(), b.len());
            if !matches!(res, Ok(Err(_))) {
                let f = Fail::new("dimension_mismatch_accepted", format!("{metric:?}.{entry} on dimensions {} and {} answered {res:?}", a.len(), b.len()));
                run.violation(violation(metric, &entry, &class, &a, &b, &f));
            }
        } else {
            let res = check_one(metric, &entry, &a, &b);
            println!("replay {metric:?}.{entry} dim {} -> {res:?}", a.len());
            if let Err(f) = res {
                run.violation(violation(metric, &entry, &class, &a, &b, &f));
            }
        }
        run.finish();
    }

    let mut dims: Vec<usize> = (1..=64).collect();
    dims.extend(65..=80);
    dims.extend([127, 128, 129]);
    if run.tier == vcore::Tier::Thorough {
        dims.extend(81..=126);
        dims.extend([255, 256, 257, 511, 512, 513, 1024]);
    }
    let aggs = util::par_map(dims.clone(), util::n_threads(), run_dim);
    for a in aggs {
        run.add("evaluations", a.evaluations);
        run.add("entry_point_agreement_triples", a.agreement_triples);
        run.add("entry_point_agreement_bit_identical", a.agreement_bit_identical);
        run.add("dimension_mismatch_calls", a.mismatch_pairs);
        for k in a.distinct {
            run.distinct(k);
        }
        for v in a.violations {
            run.violation(v);
        }
    }
    for (n, i) in [(9usize, 8usize), (20, 17)] {
        let (class, a, b) = pairs(n).into_iter().filter(|p| p.0 == "one_hot").nth(i).unwrap();
        let vals: Vec<serde_json::Value> = METRICS
            .iter()
            .map(|m| json!({"metric": format!("{m:?}"), "reference_f64": reference(*m, &a, &b).0, "compute_mixed": m.compute_mixed(&a, &to_bf16(&b)).ok()}))
            .collect();
        run.sample(json!({"dimension": n, "class": class, "a": a, "b": b, "values": vals}));
    }
    run.set("dimensions", json!(dims));
    run.set("dimensions_in_property_range", json!("1..=64 (the rest is beyond the property's quantifier)"));
    run.set("tolerance", json!("|got - f64 formula| <= 2(n+8) 2^-24 sum|terms| (cosine: 3x that + 4 ulp, absolute); bf16 half-ulp = 2^-9"));
    run.rule(
        "for every dimension n in the declared list and every metric: the declared pairs (position-coded pair; every one-hot 3·e_i, i in 0..n, against the position-coded vector; zero, identical, opposite, sub-epsilon norm, \
         large magnitude; 4 seeded non-bf16-representable pairs), both argument orders, through compute (both rounded to bf16), compute_f32 (as given) and compute_mixed (second argument rounded to bf16), each against the \
         documented formula in f64 on exactly the values the kernel received; additionally the three entry points on identical bf16-exact values (agreement); dimension mismatches (n <= 17 against every m in 0..=18) must be \
         refused by every entry point; distinct = (metric, dimension, class, first argument)",
    );
    run.assume("values stay in the normal f32 range (no overflow / underflow of squares); the cosine zero rule is exercised with an exact zero and a clearly sub-epsilon norm only, not at the threshold");
    run.finish();
}

//! C12 / part `checkpoint` — EVERY public checkpoint entry point of
//! `HnswIndex`, interrupted at EVERY callback position, then retried and
//! reloaded. The crate offers four ways to persist a generation, all
//! documented as nodes -> ids -> metadata with the metadata as commit record:
//!
//! * `flush_with(now, node_f, ids_f, metadata_f)`                         (used by `anda_db`)
//! * `flush(metadata_writer, ids_writer, now, node_f)`                    (crate docs, example, `Hnsw::new`)
//! * `store_dirty_nodes(f)` + `store_ids(w)` + `store_metadata(w, now)`     (granular API)
//! * `store_dirty_nodes(f)` + `store_ids(w)` + `store_metadata_with(now, f)`
//!
//! each followed by `purge_removed_nodes(f)` once the persist step succeeded.
//! For a history h = ops[0..p] ++ ops[p..] (all histories up to a depth, every
//! split point p) the checkpoint pass after ops[0..p] gets ONE fault: the j-th
//! node callback answers `Ok(false)` (documented cooperative stop) or fails,
//! the ids write fails, the metadata write fails, the j-th purge callback
//! answers `Ok(false)` or fails — every j, every protocol. Then:
//!
//! 1. a stop / failure before the commit record publishes neither ids nor
//!    metadata (a failed ids write: no metadata); an injected failure is
//!    reported as `Err` by the API;
//! 2. the image left behind loads and is sound (each id holds the vector of
//!    the last commit or the current one; exact once the commit record is out);
//! 3. whenever the live index says nothing is pending (`has_dirty_nodes`,
//!    `has_pending_metadata_flush` both false) the image IS the live index:
//!    same ids, vectors, layers, adjacency lists, and the brute-force oracle
//!    with the completeness clause and the element count holds on the reload;
//! 4. the rest of the history runs, fault-free passes of the same protocol
//!    run until nothing is pending (at most 6), and the reload again equals
//!    the live index and the model (soundness + completeness + count).

//!
//! MUTATIONS INSIDE THE CALLBACKS (second family of cases, no fault): every
//! callback is an await point of the index's future, so the caller's own task
//! may mutate the index there (what `Collection::update` does while a
//! background flush is in flight); the granular protocols additionally leave
//! the caller in control between `store_dirty_nodes`, `store_ids` and
//! `store_metadata`. At EVERY such site of every protocol (node callback j,
//! ids, metadata, purge callback j) ONE mutation is issued before the callback
//! answers: remove + re-insert (other vector) of the id being written /
//! deleted, remove + re-insert of another id that is dirty, insert of a fresh
//! id, remove of the id being written. The pass then runs to its end, the
//! image must load; "nothing pending" must imply reload == live index, and
//! after the rest of the history and fault-free passes to quiescence the
//! reload must equal the live index (vectors included) and the model.

use serde_json::json;
use std::collections::BTreeSet;
use std::time::Instant;
use vcore::{Run, Violation, util};
use vhnsw::enumerate::{Item, for_each_history, items};
use vhnsw::hist::{Op, World, base_ops, complete_pass, no_panic, ops_short, quiet_panics};
use vhnsw::model::{Fail, Tally, check_index, same_graph};
use vhnsw::sut::{Cfg, Fault, PROTOS, Proto, Site, Write, all_cfgs, checkpoint_pass, checkpoint_pass_hooked, load, nothing_pending, quiescent};

#[derive(Clone, Debug, Default)]
struct CaseOut {
    fault_hit: bool,
    node_calls: usize,
    purge_calls: usize,
    wrote_ids: bool,
    wrote_meta: bool,
    ids_site: bool,
    meta_site: bool,
    /// the faulted pass left the live index with nothing pending
    nothing_pending_after_pass: bool,
    passes_to_quiescence: usize,
    key: u64,
}

struct Case<'a> {
    cfg: &'a Cfg,
    base: &'a str,
    seed: u64,
    ops: &'a [Op],
    split: usize,
    proto: Proto,
    fault: Fault,
}

/// Runs one case. A breach of clause 1 does not end the case: the remaining
/// clauses are still evaluated on what the pass left behind, so the replay
/// shows the consequence (lost or stale vectors after the reload) as well.
fn run_case(c: &Case, tally: &mut Tally) -> Result<CaseOut, Vec<(Fail, &'static str)>> {
    let mut phase = "history";
    let mut soft: Vec<(Fail, &'static str)> = Vec::new();
    let r = no_panic(|| {
        let (cfg, proto, fault) = (c.cfg, c.proto, c.fault);
        let mut w = World::new_with(cfg, c.seed, proto)?;
        for op in base_ops(c.base) {
            w.apply(&op)?;
        }
        for op in &c.ops[..c.split] {
            w.apply(op)?;
        }
        phase = "faulted_pass";
        w.clock += 1;
        let pass = checkpoint_pass(&w.index, proto, w.clock, fault);
        let wrote_ids = pass.writes.iter().any(|x| matches!(x, Write::Ids(_)));
        let wrote_meta = pass.writes.iter().any(|x| matches!(x, Write::Meta(_)));
        let mut out = CaseOut { fault_hit: pass.fault_hit, node_calls: pass.node_calls, purge_calls: pass.purge_calls, wrote_ids, wrote_meta, ids_site: pass.ids_site, meta_site: pass.meta_site, ..Default::default() };
        if fault != Fault::None && !pass.fault_hit {
            return Ok(out);
        }
        let labels = || pass.writes.iter().map(|x| x.label()).collect::<Vec<_>>();
        match (&pass.error, fault.is_injected_error()) {
            (Some(e), false) => return Err(Fail::new("flush_error", format!("{e} although no failure was injected"))),
            (None, true) => {
                return Err(Fail::new(
                    "error_swallowed",
                    format!("the {} fault failed its call (injected), yet every API call of the pass reported success; writes {:?}", fault.class(), labels()),
                ));
            }
            _ => {}
        }
        // 1. nothing of the commit may be published after a stop / failure
        let before_ids = matches!(fault, Fault::NodeStop(_) | Fault::NodeErr(_));
        if (before_ids && (wrote_ids || wrote_meta)) || (fault == Fault::IdsErr && wrote_meta) {
            let kind = if matches!(fault, Fault::NodeStop(_)) { "commit_after_stop" } else { "commit_after_error" };
            soft.push((
                Fail::new(kind, format!("the pass was interrupted ({fault:?}) before the commit record, yet it went on to publish {:?}", labels())),
                phase,
            ));
        }
        w.store.apply_all(&pass.writes);
        if wrote_meta {
            w.committed = w.model.clone();
            w.window.clear();
        }
        // 2. the image left behind
        phase = "load_after_faulted_pass";
        let loaded = load(&w.store).map_err(|e| Fail::new("load_error", e))?;
        let exact = w.committed == w.model;
        check_index(&loaded, cfg.metric, cfg.dim, &w.model, if exact { None } else { Some(&w.committed) }, tally)?;
        // 3. nothing pending => durable image == live index
        out.nothing_pending_after_pass = nothing_pending(&w.index);
        if out.nothing_pending_after_pass {
            phase = "nothing_pending_after_faulted_pass";
            if !exact {
                check_index(&loaded, cfg.metric, cfg.dim, &w.model, None, tally)?;
            }
            same_graph(&w.index, &loaded)?;
        }
        drop(loaded);
        let split_key = (w.committed.key(), w.model.key());
        // 4. the rest of the history, then fault-free passes until quiet
        phase = "suffix";
        for op in &c.ops[c.split..] {
            w.apply(op)?;
        }
        phase = "completing_passes";
        for round in 0..=6 {
            if quiescent(&w.index) {
                out.passes_to_quiescence = round;
                break;
            }
            if round == 6 {
                return Err(Fail::new(
                    "never_quiescent",
                    format!(
                        "after 6 fault-free passes still pending: dirty={} metadata={} tombstones={:?}",
                        w.index.has_dirty_nodes(),
                        w.index.has_pending_metadata_flush(),
                        w.index.removed_node_ids()
                    ),
                ));
            }
            w.clock += 1;
            let ws = complete_pass(&w.index, proto, w.clock)?;
            w.store.apply_all(&ws);
        }
        phase = "load_after_completion";
        let loaded = load(&w.store).map_err(|e| Fail::new("load_error", e))?;
        check_index(&loaded, cfg.metric, cfg.dim, &w.model, None, tally)?;
        same_graph(&w.index, &loaded)?;
        out.key = util::fnv64(format!("{}|{:?}|{:?}|{:?}|{}", cfg.label(), proto, fault, split_key, w.model.key()).as_bytes());
        Ok(out)
    });
    match r {
        Ok(out) if soft.is_empty() => Ok(out),
        Ok(_) => Err(soft),
        Err(f) => {
            soft.push((f, phase));
            Err(soft)
        }
    }
}

fn violation(c: &Case, phase: &str, f: &Fail) -> Violation {
    Violation {
        signature: format!("C12|checkpoint|{:?}|{}|{}|{}", c.proto, c.fault.class(), f.kind, phase),
        summary: format!(
            "[{}] base {} layer-seed {} history [{}], checkpoint through {:?} after {} of its operations with fault {:?}, then the rest, then fault-free passes, reload; phase {}: {}",
            c.cfg.label(),
            c.base,
            c.seed,
            ops_short(c.ops),
            c.proto,
            c.split,
            c.fault,
            phase,
            f.detail
        ),
        replay: json!({"cfg": c.cfg, "base": c.base, "seed": c.seed, "ops": c.ops, "split": c.split, "proto": c.proto, "fault": c.fault}),
    }
}


// ---------------------------------------------------------------------------
// Mutations issued from inside the callbacks of a checkpoint pass
// ---------------------------------------------------------------------------

/// The one mutation issued at a site. "Current id" = the id the callback is
/// writing (node callback) or deleting (purge callback).
#[derive(Clone, Copy, Debug, PartialEq, Eq, serde::Serialize, serde::Deserialize)]
enum Mutn {
    /// remove (when live) + insert of the current id with its OTHER vector
    ReinsertSelf,
    /// remove + insert (other vector) of another live id: the most recently inserted unflushed one, else the highest
    ReinsertOther,
    /// insert of the lowest id that is not live (and is not the current id)
    InsertFresh,
    /// remove of the current id
    RemoveSelf,
}

const MUTNS: [Mutn; 4] = [Mutn::ReinsertSelf, Mutn::ReinsertOther, Mutn::InsertFresh, Mutn::RemoveSelf];

struct MutCase<'a> {
    cfg: &'a Cfg,
    base: &'a str,
    seed: u64,
    ops: &'a [Op],
    split: usize,
    proto: Proto,
    site: Site,
    mutn: Mutn,
}

#[derive(Clone, Debug, Default)]
struct MutOut {
    /// the site was reached and the mutation had something to do
    applied: Vec<String>,
    nothing_pending_after_pass: bool,
    passes_to_quiescence: usize,
    key: u64,
}

fn run_mut_case(c: &MutCase, tally: &mut Tally) -> Result<MutOut, (Fail, &'static str)> {
    use std::cell::RefCell;
    let mut phase = "history";
    let r = no_panic(|| {
        let (cfg, proto) = (c.cfg, c.proto);
        let mut w = World::new_with(cfg, c.seed, proto)?;
        for op in base_ops(c.base) {
            w.apply(&op)?;
        }
        for op in &c.ops[..c.split] {
            w.apply(op)?;
        }
        phase = "mutated_pass";
        w.clock += 1;
        let now = w.clock;
        let before_key = w.model.key();
        // ids inserted since the last completed flush, oldest first (these are dirty)
        let unflushed: Vec<u64> = w.window.iter().filter_map(|o| if let Op::Insert { id, .. } = o { Some(*id) } else { None }).collect();
        let model = RefCell::new(w.model.clone());
        let lastv = RefCell::new(w.last_variant.clone());
        let applied: RefCell<Vec<String>> = RefCell::new(Vec::new());
        let failed: RefCell<Option<Fail>> = RefCell::new(None);
        let (index, vectors) = (&w.index, &w.vectors);
        let reinsert = |id: u64| {
            let mut m = model.borrow_mut();
            let mut lv = lastv.borrow_mut();
            if m.live.contains_key(&id) {
                if !index.remove(id, now) {
                    *failed.borrow_mut() = Some(Fail::new("op_error", format!("remove({id}) of a live id, issued from inside a callback, returned false")));
                    return;
                }
                m.remove(id);
                applied.borrow_mut().push(format!("rm({id})"));
            }
            let v = 1 - lv.get(&id).copied().unwrap_or(1);
            let raw = vectors[(id - 1) as usize][v as usize].clone();
            match index.insert_f32(id, raw.clone(), now) {
                Ok(()) => {
                    m.insert(id, &raw);
                    lv.insert(id, v);
                    applied.borrow_mut().push(format!("ins({id},{})", if v == 0 { "a" } else { "b" }));
                }
                Err(e) => *failed.borrow_mut() = Some(Fail::new("op_error", format!("insert({id}) of an id not in the index, issued from inside a callback, failed: {e}"))),
            }
        };
        let hook = |site: Site, cur: Option<u64>| {
            if site != c.site || !applied.borrow().is_empty() || failed.borrow().is_some() {
                return;
            }
            match c.mutn {
                Mutn::ReinsertSelf => {
                    if let Some(id) = cur {
                        reinsert(id);
                    }
                }
                Mutn::ReinsertOther => {
                    let pick = {
                        let m = model.borrow();
                        unflushed.iter().rev().copied().find(|i| Some(*i) != cur && m.live.contains_key(i)).or_else(|| m.live.keys().rev().copied().find(|i| Some(*i) != cur))
                    };
                    if let Some(id) = pick {
                        reinsert(id);
                    }
                }
                Mutn::InsertFresh => {
                    let pick = {
                        let m = model.borrow();
                        (1..=vhnsw::hist::N_IDS).find(|i| !m.live.contains_key(i) && Some(*i) != cur)
                    };
                    if let Some(id) = pick {
                        reinsert(id);
                    }
                }
                Mutn::RemoveSelf => {
                    if let Some(id) = cur {
                        let mut m = model.borrow_mut();
                        if m.live.contains_key(&id) {
                            if index.remove(id, now) {
                                m.remove(id);
                                applied.borrow_mut().push(format!("rm({id})"));
                            } else {
                                *failed.borrow_mut() = Some(Fail::new("op_error", format!("remove({id}) of a live id, issued from inside a callback, returned false")));
                            }
                        }
                    }
                }
            }
        };
        let pass = checkpoint_pass_hooked(index, proto, now, Fault::None, &hook);
        if let Some(f) = failed.into_inner() {
            return Err(f);
        }
        let mut out = MutOut { applied: applied.into_inner(), ..Default::default() };
        w.model = model.into_inner();
        w.last_variant = lastv.into_inner();
        if out.applied.is_empty() {
            return Ok(out);
        }
        if let Some(e) = &pass.error {
            return Err(Fail::new("flush_error", format!("{e} although no failure was injected (mutation {:?} issued at {:?})", out.applied, c.site)));
        }
        w.store.apply_all(&pass.writes);
        // the image left behind loads; nothing pending => it IS the live index
        phase = "load_after_mutated_pass";
        let loaded = load(&w.store).map_err(|e| Fail::new("load_error", e))?;
        out.nothing_pending_after_pass = nothing_pending(&w.index);
        if out.nothing_pending_after_pass {
            phase = "nothing_pending_after_mutated_pass";
            check_index(&loaded, cfg.metric, cfg.dim, &w.model, None, tally)?;
            same_graph(&w.index, &loaded)?;
        }
        drop(loaded);
        phase = "suffix";
        // the histories are enumerated without the inside mutation: an operation of the
        // remainder that the mutation disabled (insert of an id it inserted, remove of an id it removed) is skipped
        for op in &c.ops[c.split..] {
            let enabled = match op {
                Op::Insert { id, .. } => !w.model.live.contains_key(id),
                Op::Remove { id } => w.model.live.contains_key(id),
                Op::FlushLoad => true,
            };
            if enabled {
                w.apply(op)?;
            }
        }
        phase = "completing_passes";
        for round in 0..=6 {
            if quiescent(&w.index) {
                out.passes_to_quiescence = round;
                break;
            }
            if round == 6 {
                return Err(Fail::new(
                    "never_quiescent",
                    format!("after 6 fault-free passes still pending: dirty={} metadata={} tombstones={:?}", w.index.has_dirty_nodes(), w.index.has_pending_metadata_flush(), w.index.removed_node_ids()),
                ));
            }
            w.clock += 1;
            let ws = complete_pass(&w.index, proto, w.clock)?;
            w.store.apply_all(&ws);
        }
        phase = "load_after_completion";
        let loaded = load(&w.store).map_err(|e| Fail::new("load_error", e))?;
        check_index(&loaded, cfg.metric, cfg.dim, &w.model, None, tally)?;
        same_graph(&w.index, &loaded)?;
        out.key = util::fnv64(format!("{}|{:?}|{:?}|{:?}|{}|{}", cfg.label(), proto, c.site, c.mutn, before_key, w.model.key()).as_bytes());
        Ok(out)
    });
    r.map_err(|f| (f, phase))
}

fn mut_violation(c: &MutCase, phase: &str, f: &Fail) -> Violation {
    Violation {
        signature: format!("C12|checkpoint|{:?}|inside_{}|{:?}|{}|{}", c.proto, c.site.class(), c.mutn, f.kind, phase),
        summary: format!(
            "[{}] base {} layer-seed {} history [{}], checkpoint through {:?} after {} of its operations, mutation {:?} issued from inside the pass at {:?} (before that callback answers), pass runs to its end, then the rest, then fault-free passes, reload; phase {}: {}",
            c.cfg.label(),
            c.base,
            c.seed,
            ops_short(c.ops),
            c.proto,
            c.split,
            c.mutn,
            c.site,
            phase,
            f.detail
        ),
        replay: json!({"cfg": c.cfg, "base": c.base, "seed": c.seed, "ops": c.ops, "split": c.split, "proto": c.proto, "inside": {"site": c.site, "mutation": c.mutn}}),
    }
}

/// All (site, mutation) cases of one (history, split, protocol); the sites are
/// those the fault-free, mutation-free pass offered.
fn run_mut_cases(item: &Item, ops: &[Op], split: usize, proto: Proto, base_out: &CaseOut, agg: &mut Agg) {
    let mut sites: Vec<Site> = (0..base_out.node_calls).map(Site::Node).collect();
    if base_out.ids_site {
        sites.push(Site::Ids);
    }
    if base_out.meta_site {
        sites.push(Site::Meta);
    }
    sites.extend((0..base_out.purge_calls).map(Site::Purge));
    for site in sites {
        for mutn in MUTNS {
            let case = MutCase { cfg: &item.cfg, base: item.base, seed: item.seed, ops, split, proto, site, mutn };
            let mut tally = Tally::default();
            let r = run_mut_case(&case, &mut tally);
            agg.searches += tally.searches;
            match r {
                Ok(out) => {
                    if out.applied.is_empty() {
                        continue; // nothing to do for this mutation at this site (e.g. no current id)
                    }
                    agg.mut_cases += 1;
                    *agg.mut_by_site.entry(site.class()).or_default() += 1;
                    *agg.mut_by_kind.entry(format!("{mutn:?}")).or_default() += 1;
                    *agg.by_proto.entry(format!("{proto:?}")).or_default() += 1;
                    agg.mut_nothing_pending += out.nothing_pending_after_pass as u64;
                    agg.distinct.insert(out.key);
                    if agg.mut_sample.is_none() && matches!(site, Site::Node(j) if j >= 1) && mutn == Mutn::ReinsertSelf && proto == Proto::Granular {
                        agg.mut_sample = Some(json!({
                            "cfg": item.cfg.label(), "base": item.base, "layer_seed": item.seed, "history": ops_short(ops), "checkpoint_after_ops": split,
                            "protocol": format!("{proto:?}"), "site": format!("{site:?}"), "mutation_issued_inside": out.applied,
                            "nothing_pending_right_after_the_pass": out.nothing_pending_after_pass, "fault_free_passes_until_nothing_pending": out.passes_to_quiescence,
                        }));
                    }
                }
                Err((f, phase)) => {
                    agg.mut_cases += 1;
                    push_violation(agg, mut_violation(&case, phase, &f));
                }
            }
        }
    }
}

#[derive(Default)]
struct Agg {
    mut_cases: u64,
    mut_by_site: std::collections::BTreeMap<&'static str, u64>,
    mut_by_kind: std::collections::BTreeMap<String, u64>,
    mut_nothing_pending: u64,
    mut_sample: Option<serde_json::Value>,
    histories: u64,
    cases: u64,
    by_class: std::collections::BTreeMap<&'static str, u64>,
    by_proto: std::collections::BTreeMap<String, u64>,
    nothing_pending_after_fault: u64,
    searches: u64,
    distinct: BTreeSet<u64>,
    violations: Vec<Violation>,
    sample: Option<serde_json::Value>,
    complete: bool,
}

fn push_violation(agg: &mut Agg, v: Violation) {
    if agg.violations.len() < 4 || !agg.violations.iter().any(|x| x.signature == v.signature) {
        agg.violations.push(v);
    }
}

fn run_item(item: &Item, protos: &[Proto], deadline: Instant) -> Agg {
    let mut agg = Agg::default();
    let done = for_each_history(item, &mut |ops| {
        if Instant::now() > deadline {
            return false;
        }
        agg.histories += 1;
        for split in 0..=ops.len() {
            for &proto in protos {
                let one = |fault: Fault, agg: &mut Agg| -> Option<CaseOut> {
                    let case = Case { cfg: &item.cfg, base: item.base, seed: item.seed, ops, split, proto, fault };
                    let mut tally = Tally::default();
                    let r = run_case(&case, &mut tally);
                    agg.cases += 1;
                    agg.searches += tally.searches;
                    *agg.by_class.entry(fault.class()).or_default() += 1;
                    *agg.by_proto.entry(format!("{proto:?}")).or_default() += 1;
                    match r {
                        Ok(out) => {
                            if out.fault_hit || fault == Fault::None {
                                agg.distinct.insert(out.key);
                            }
                            if fault != Fault::None && out.nothing_pending_after_pass {
                                agg.nothing_pending_after_fault += 1;
                            }
                            if agg.sample.is_none() && matches!(fault, Fault::NodeStop(j) if j >= 1) && ops.len() >= 2 && proto == Proto::Flush {
                                agg.sample = Some(json!({
                                    "cfg": item.cfg.label(), "base": item.base, "layer_seed": item.seed, "history": ops_short(ops), "checkpoint_after_ops": split,
                                    "protocol": format!("{proto:?}"), "fault": format!("{fault:?}"), "node_callbacks_of_the_pass": out.node_calls,
                                    "fault_free_passes_until_nothing_pending": out.passes_to_quiescence,
                                }));
                            }
                            Some(out)
                        }
                        Err(fails) => {
                            for (f, phase) in &fails {
                                push_violation(agg, violation(&case, phase, f));
                            }
                            None
                        }
                    }
                };
                // the fault-free pass tells how many callback positions there are
                let Some(base_out) = one(Fault::None, &mut agg) else { continue };
                let mut faults: Vec<Fault> = Vec::new();
                for j in 0..base_out.node_calls {
                    faults.push(Fault::NodeStop(j));
                    faults.push(Fault::NodeErr(j));
                }
                if base_out.wrote_ids {
                    faults.push(Fault::IdsErr);
                }
                if base_out.wrote_meta {
                    faults.push(Fault::MetaErr);
                }
                for j in 0..base_out.purge_calls {
                    faults.push(Fault::PurgeStop(j));
                    faults.push(Fault::PurgeErr(j));
                }
                for fault in faults {
                    one(fault, &mut agg);
                }
                run_mut_cases(item, ops, split, proto, &base_out, &mut agg);
            }
        }
        true
    });
    agg.complete = done;
    agg
}

fn main() {
    let mut run = Run::from_args("C12", "checkpoint", "fault_enumeration");
    quiet_panics();

    if let Some(file) = run.replay_file.clone() {
        let v: serde_json::Value = serde_json::from_slice(&std::fs::read(&file).expect("read replay")).expect("json");
        let r = &v["replay"];
        let cfg: Cfg = serde_json::from_value(r["cfg"].clone()).expect("cfg");
        let base = r["base"].as_str().expect("base").to_string();
        let seed = r["seed"].as_u64().expect("seed");
        let ops: Vec<Op> = serde_json::from_value(r["ops"].clone()).expect("ops");
        let split = r["split"].as_u64().expect("split") as usize;
        let proto: Proto = serde_json::from_value(r["proto"].clone()).expect("proto");
        if r["inside"].is_object() {
            let site: Site = serde_json::from_value(r["inside"]["site"].clone()).expect("site");
            let mutn: Mutn = serde_json::from_value(r["inside"]["mutation"].clone()).expect("mutation");
            let case = MutCase { cfg: &cfg, base: &base, seed, ops: &ops, split, proto, site, mutn };
            let mut tally = Tally::default();
            let res = run_mut_case(&case, &mut tally);
            run.add("evaluations", tally.searches);
            println!("replay [{}] base {} seed {} [{}] split {} {:?} inside {:?} {:?} -> {:?}", cfg.label(), base, seed, ops_short(&ops), split, proto, site, mutn, res);
            if let Err((f, phase)) = res {
                run.violation(mut_violation(&case, phase, &f));
            }
            run.finish();
        }
        let fault: Fault = serde_json::from_value(r["fault"].clone()).expect("fault");
        let case = Case { cfg: &cfg, base: &base, seed, ops: &ops, split, proto, fault };
        let mut tally = Tally::default();
        let res = run_case(&case, &mut tally);
        run.add("evaluations", tally.searches);
        println!("replay [{}] base {} seed {} [{}] split {} {:?} {:?} -> {:?}", cfg.label(), base, seed, ops_short(&ops), split, proto, fault, res);
        if let Err(fails) = res {
            for (f, phase) in &fails {
                run.violation(violation(&case, phase, f));
            }
        }
        run.finish();
    }

    // (depth, bases, dims, metrics, layer seeds)
    use anda_db_hnsw::DistanceMetric as M;
    let all_metrics = vhnsw::sut::METRICS.to_vec();
    let all = vec!["empty", "b4", "b7c"];
    type Step = (usize, Vec<&'static str>, Vec<usize>, Vec<M>, Vec<u64>);
    let plan: Vec<Step> = run.tier.pick(
        vec![
            (0, all.clone(), vec![2, 8], all_metrics.clone(), vec![1]),
            (1, all.clone(), vec![2], all_metrics.clone(), vec![1]),
            (2, vec!["b7c"], vec![2], vec![M::Euclidean], vec![1]),
        ],
        vec![
            (0, all.clone(), vec![2, 8], all_metrics.clone(), vec![1, 2]),
            (1, all.clone(), vec![2, 8], all_metrics.clone(), vec![1, 2]),
            (2, all.clone(), vec![2, 8], all_metrics.clone(), vec![1, 2]),
            (3, vec!["b4", "b7c"], vec![2], all_metrics.clone(), vec![1]),
        ],
    );
    let cfgs = all_cfgs(&[2, 8], false);
    let mut completed: Vec<String> = Vec::new();
    let mut all_seeds = BTreeSet::new();
    let mut by_class: std::collections::BTreeMap<&'static str, u64> = Default::default();
    let mut by_proto: std::collections::BTreeMap<String, u64> = Default::default();
    let mut mut_by_site: std::collections::BTreeMap<&'static str, u64> = Default::default();
    let mut mut_by_kind: std::collections::BTreeMap<String, u64> = Default::default();
    let mut mut_sampled = false;
    for (depth, bases, dims, metrics, seeds) in plan {
        all_seeds.extend(seeds.iter().copied());
        if !run.in_budget() {
            run.cap_hit(&format!("time budget: histories of {depth} operations not started"));
            break;
        }
        let cs: Vec<Cfg> = cfgs.iter().filter(|c| dims.contains(&c.dim) && metrics.contains(&c.metric)).cloned().collect();
        let work = items(&cs, &bases, &seeds, depth);
        let deadline = Instant::now() + std::time::Duration::from_secs_f64(run.remaining_s());
        let aggs: Vec<Agg> = util::par_map(work, util::n_threads(), |item| run_item(&item, &PROTOS, deadline));
        let mut complete = true;
        let mut sampled = false;
        let cases_before = run.get("checkpoint_cases");
        for a in aggs {
            complete &= a.complete;
            run.add("histories", a.histories);
            run.add("checkpoint_cases", a.cases);
            run.add("evaluations", a.searches);
            run.add("faulted_passes_leaving_nothing_pending", a.nothing_pending_after_fault);
            run.add("mutation_inside_callback_cases", a.mut_cases);
            run.add("mutated_passes_leaving_nothing_pending", a.mut_nothing_pending);
            for (k, n) in a.mut_by_site {
                *mut_by_site.entry(k).or_default() += n;
            }
            for (k, n) in a.mut_by_kind {
                *mut_by_kind.entry(k).or_default() += n;
            }
            if let Some(s) = a.mut_sample {
                if !mut_sampled && depth >= 1 {
                    run.sample(s);
                    mut_sampled = true;
                }
            }
            for (k, n) in a.by_class {
                *by_class.entry(k).or_default() += n;
            }
            for (k, n) in a.by_proto {
                *by_proto.entry(k).or_default() += n;
            }
            for k in a.distinct {
                run.distinct(k);
            }
            for v in a.violations {
                run.violation(v);
            }
            if let Some(s) = a.sample {
                if !sampled {
                    run.sample(s);
                    sampled = true;
                }
            }
        }
        if complete {
            completed.push(format!(
                "{depth} ops (checkpoint after every prefix): bases {bases:?}, dims {dims:?}, {} configurations, layer seeds {seeds:?}: {} cases",
                cs.len(),
                run.get("checkpoint_cases") - cases_before
            ));
        } else {
            run.cap_hit(&format!("time budget: histories of {depth} operations not completed"));
            break;
        }
    }
    run.add("cooperative_stop_cases", by_class.get("node_stop").copied().unwrap_or(0) + by_class.get("purge_stop").copied().unwrap_or(0));
    run.set("cases_by_fault_class", json!(by_class));
    run.set("cases_by_protocol", json!(by_proto));
    run.set("mutation_cases_by_site", json!(mut_by_site));
    run.set("mutation_cases_by_kind", json!(mut_by_kind));
    run.set("protocols", json!(PROTOS.iter().map(|p| format!("{p:?}")).collect::<Vec<_>>()));
    run.set("completed", json!(completed));
    run.set("layer_seeds", json!(all_seeds));
    run.rule(
        "every history of exactly d operations (alphabet of part hist: insert a|b, remove, re-insert, complete flush+load) from each base (empty; ids 1-4 inserted, never flushed; ids 1-7 inserted and flushed to \
         completion), every split point p in 0..=d, every public checkpoint protocol (flush_with; flush with two writers; store_dirty_nodes + store_ids + store_metadata; the same with store_metadata_with; each \
         followed by purge_removed_nodes after success): the checkpoint pass after the first p operations runs once fault-free (that run counts the callback positions) and once per fault: node callback j answers \
         Ok(false) / fails (every j), ids write fails, metadata write fails, purge callback j answers Ok(false) / fails (every j). Oracle per case: no ids/metadata published after a stop or failure before the commit \
         record; an injected failure surfaces as Err; the image loads and is sound (old-or-new vectors before the commit record, exact after it); nothing pending (has_dirty_nodes, has_pending_metadata_flush false) \
         implies load(image) == live index (ids, vectors, layers, adjacency lists) and the brute-force oracle incl. completeness and element count; after the remaining operations and fault-free passes of the same \
         protocol until nothing is pending (<= 6) the reload equals the live index and the model; the layer seed is the declared one; distinct = (configuration, protocol, fault, state at the checkpoint, final state). \
         Second family (counter mutation_inside_callback_cases), same histories / splits / protocols, no fault: at every site of the pass (node callback j; ids callback of flush_with resp. the gap before store_ids; \
         metadata callback of flush_with / store_metadata_with resp. the gap before store_metadata; purge callback j - the two synchronous writers of flush offer no site) ONE mutation is issued from inside, before the \
         callback answers: remove + re-insert with the other vector of the id being written / deleted; the same of another id (the most recent unflushed insert, else the highest live id); insert of the lowest absent id; \
         remove of the id being written (cases in which the mutation has nothing to do are not counted). The pass runs to its end without error, the image loads, nothing pending implies load(image) == live index, \
         and after the remaining operations and fault-free passes to quiescence the reload equals the live index (ids, vectors, layers, adjacency lists, metadata version) and the model",
    );
    run.assume("whatever reaches a node/ids/metadata callback or writer is durable and each object is replaced atomically (a non-empty writer = the object was replaced); a caller runs purge_removed_nodes only after the persist step ran to its end, as documented");
    run.assume("single-threaded use: a mutation only at the await points the pass offers (inside a callback, or between two calls of the granular protocols), one mutation per pass; layer assignment exhaustive only over the declared layer seeds");
    run.finish();
}

//! Enumeration of all operation histories of an exact length. Which
//! operations are enabled depends on the model state only (live ids), so the
//! histories are generated from a model-only simulation and each one is then
//! executed from scratch on the real index.

use crate::hist::{N_IDS, Op, base_ops};
use crate::sut::Cfg;
use std::collections::BTreeSet;

#[derive(Clone, Default)]
pub struct Sim {
    pub live: BTreeSet<u64>,
}

impl Sim {
    pub fn of_base(base: &str) -> Sim {
        let mut s = Sim::default();
        for op in base_ops(base) {
            s.apply(&op);
        }
        s
    }
    pub fn apply(&mut self, op: &Op) {
        match op {
            Op::Insert { id, .. } => {
                self.live.insert(*id);
            }
            Op::Remove { id } => {
                self.live.remove(id);
            }
            Op::FlushLoad => {}
        }
    }
    /// Must agree with `World::enabled`.
    pub fn enabled(&self) -> Vec<Op> {
        let mut out = Vec::new();
        for id in 1..=N_IDS {
            if self.live.contains(&id) {
                out.push(Op::Remove { id });
            } else {
                out.push(Op::Insert { id, v: 0 });
                out.push(Op::Insert { id, v: 1 });
            }
        }
        out.push(Op::FlushLoad);
        out
    }
}

/// One unit of parallel work: all histories of length `depth` that start
/// with `prefix`, for one configuration / base / layer seed.
#[derive(Clone)]
pub struct Item {
    pub cfg: Cfg,
    pub base: &'static str,
    pub seed: u64,
    pub prefix: Vec<Op>,
    pub depth: usize,
}

fn prefixes(base: &str, len: usize) -> Vec<Vec<Op>> {
    let mut out = vec![(Sim::of_base(base), Vec::new())];
    for _ in 0..len {
        let mut next = Vec::new();
        for (sim, ops) in out {
            for op in sim.enabled() {
                let mut s = sim.clone();
                s.apply(&op);
                let mut o: Vec<Op> = ops.clone();
                o.push(op);
                next.push((s, o));
            }
        }
        out = next;
    }
    out.into_iter().map(|(_, o)| o).collect()
}

pub fn items(cfgs: &[Cfg], bases: &[&'static str], seeds: &[u64], depth: usize) -> Vec<Item> {
    let split = depth.min(2);
    let mut out = Vec::new();
    for cfg in cfgs {
        for base in bases {
            let pre = prefixes(base, split);
            for seed in seeds {
                for p in &pre {
                    out.push(Item { cfg: cfg.clone(), base, seed: *seed, prefix: p.clone(), depth });
                }
            }
        }
    }
    out
}

/// Calls `f` with every history of length `item.depth` extending the prefix.
/// `f` returns false to stop (budget).
pub fn for_each_history(item: &Item, f: &mut dyn FnMut(&[Op]) -> bool) -> bool {
    let mut sim = Sim::of_base(item.base);
    for op in &item.prefix {
        sim.apply(op);
    }
    let mut ops = item.prefix.clone();
    rec(&sim, &mut ops, item.depth, f)
}

fn rec(sim: &Sim, ops: &mut Vec<Op>, depth: usize, f: &mut dyn FnMut(&[Op]) -> bool) -> bool {
    if ops.len() == depth {
        return f(ops);
    }
    for op in sim.enabled() {
        let mut s = sim.clone();
        s.apply(&op);
        ops.push(op);
        let go = rec(&s, ops, depth, f);
        ops.pop();
        if !go {
            return false;
        }
    }
    true
}

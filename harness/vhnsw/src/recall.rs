//! The documented recall workloads of `/repo/rs/anda_db_hnsw/tests/recall.rs`.
//! The data generator, the exact brute-force ground truth and the recall@k
//! definition (with the ann-benchmarks epsilon tolerance) are copied verbatim
//! from that file so that the workloads are the documented ones; only the
//! layer generator of the index is different: it is seeded through the
//! `verif` hook instead of using the thread RNG.

use anda_db_hnsw::{DistanceMetric, HnswConfig, HnswIndex, half::bf16};
use std::collections::BTreeMap;

/// Deterministic SplitMix64; keeps the test independent of `rand` versions.
pub struct SplitMix64(pub u64);

impl SplitMix64 {
    fn next_u64(&mut self) -> u64 {
        self.0 = self.0.wrapping_add(0x9E3779B97F4A7C15);
        let mut z = self.0;
        z = (z ^ (z >> 30)).wrapping_mul(0xBF58476D1CE4E5B9);
        z = (z ^ (z >> 27)).wrapping_mul(0x94D049BB133111EB);
        z ^ (z >> 31)
    }

    /// Uniform f32 in [0, 1).
    fn next_f32(&mut self) -> f32 {
        (self.next_u64() >> 40) as f32 / (1u64 << 24) as f32
    }

    /// A vector rounded through bf16, exactly as the index stores it.
    pub fn next_vector(&mut self, dim: usize) -> Vec<f32> {
        (0..dim).map(|_| bf16::from_f32(self.next_f32()).to_f32()).collect()
    }
}

pub fn distance(metric: DistanceMetric, a: &[f32], b: &[f32]) -> f32 {
    match metric {
        DistanceMetric::Euclidean => a.iter().zip(b).map(|(x, y)| (x - y) * (x - y)).sum::<f32>().sqrt(),
        DistanceMetric::Cosine => {
            let dot: f32 = a.iter().zip(b).map(|(x, y)| x * y).sum();
            let na: f32 = a.iter().map(|x| x * x).sum::<f32>().sqrt();
            let nb: f32 = b.iter().map(|x| x * x).sum::<f32>().sqrt();
            if na < f32::EPSILON || nb < f32::EPSILON { 1.0 } else { 1.0 - dot / (na * nb) }
        }
        DistanceMetric::InnerProduct => -a.iter().zip(b).map(|(x, y)| x * y).sum::<f32>(),
        DistanceMetric::Manhattan => a.iter().zip(b).map(|(x, y)| (x - y).abs()).sum(),
    }
}

/// Exact k nearest neighbours by brute force; returns ids and the k-th distance.
pub fn ground_truth(metric: DistanceMetric, data: &BTreeMap<u64, Vec<f32>>, query: &[f32], k: usize) -> (Vec<u64>, f32) {
    let mut scored: Vec<(u64, f32)> = data.iter().map(|(id, v)| (*id, distance(metric, query, v))).collect();
    scored.sort_by(|a, b| a.1.partial_cmp(&b.1).unwrap().then(a.0.cmp(&b.0)));
    scored.truncate(k);
    let kth = scored.last().map(|(_, d)| *d).unwrap_or(0.0);
    (scored.into_iter().map(|(id, _)| id).collect(), kth)
}

/// recall@k of one result list, with epsilon tolerance for boundary ties.
pub fn recall_at_k(metric: DistanceMetric, data: &BTreeMap<u64, Vec<f32>>, query: &[f32], results: &[(u64, f32)], k: usize) -> f64 {
    let (truth, kth) = ground_truth(metric, data, query, k);
    let threshold = kth * 1.001 + 1e-6;
    let hits = results
        .iter()
        .take(k)
        .filter(|(id, _)| truth.contains(id) || data.get(id).is_some_and(|v| distance(metric, query, v) <= threshold))
        .count();
    hits as f64 / k as f64
}

pub struct Bench {
    pub index: HnswIndex,
    pub data: BTreeMap<u64, Vec<f32>>,
    pub queries: Vec<Vec<f32>>,
    pub metric: DistanceMetric,
    pub k: usize,
}

/// A soundness failure observed while measuring recall (the repo's test
/// asserts the same three things).
#[derive(Debug, Clone)]
pub struct Unsound(pub String);

impl Bench {
    pub fn config(metric: DistanceMetric, dim: usize) -> HnswConfig {
        HnswConfig { dimension: dim, distance_metric: metric, ..Default::default() }
    }

    /// Same as the repo's `Bench::build_with`; `upto` < n stops the inserts
    /// early (the remaining vectors are still generated so that data and
    /// queries are identical) and returns the vectors not yet inserted.
    pub fn build_with(config: HnswConfig, n: usize, num_queries: usize, seed: u64, upto: usize) -> (Bench, Vec<(u64, Vec<f32>)>) {
        let dim = config.dimension;
        let metric = config.distance_metric;
        let index = HnswIndex::new("recall".to_string(), Some(config));
        let mut rng = SplitMix64(seed);
        let mut data = BTreeMap::new();
        let mut pending = Vec::new();
        for id in 1..=(n as u64) {
            let v = rng.next_vector(dim);
            if (id as usize) <= upto {
                index.insert_f32(id, v.clone(), id).expect("insert failed");
            } else {
                pending.push((id, v.clone()));
            }
            data.insert(id, v);
        }
        let queries = (0..num_queries).map(|_| rng.next_vector(dim)).collect();
        (Bench { index, data, queries, metric, k: 10 }, pending)
    }

    /// Average and minimum recall@k over all queries.
    pub fn measure(&self, index: &HnswIndex) -> Result<(f64, f64), Unsound> {
        measure(index, self.metric, &self.data, &self.queries, self.k)
    }
}

pub fn measure(
    index: &HnswIndex,
    metric: DistanceMetric,
    data: &BTreeMap<u64, Vec<f32>>,
    queries: &[Vec<f32>],
    k: usize,
) -> Result<(f64, f64), Unsound> {
    let mut total = 0.0;
    let mut min: f64 = 1.0;
    for query in queries {
        let results = index.search_f32(query, k).map_err(|e| Unsound(format!("search failed: {e}")))?;
        if results.len() > k {
            return Err(Unsound(format!("search returned {} > top_k {k} results", results.len())));
        }
        for (id, dist) in &results {
            if !dist.is_finite() {
                return Err(Unsound(format!("non-finite distance for doc {id}")));
            }
            if !data.contains_key(id) {
                return Err(Unsound(format!("ghost doc {id} in results")));
            }
        }
        let r = recall_at_k(metric, data, query, &results, k);
        total += r;
        min = min.min(r);
    }
    Ok((total / queries.len() as f64, min))
}

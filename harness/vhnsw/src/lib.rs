//! Shared helpers for the vhnsw check parts.

//! Shared helpers for the vhnsw check parts (property C12).
pub mod enumerate;
pub mod hist;
pub mod model;
pub mod recall;
pub mod sut;

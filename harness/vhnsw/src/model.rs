//! VecModel: the boring reference for C12. A map id -> stored vector (rounded
//! through bf16, which is how the index keeps vectors) plus the four distance
//! definitions re-stated from the crate documentation:
//!
//! * Euclidean    = sqrt(sum (a_i - b_i)^2)            (rooted, not squared)
//! * Cosine       = 1 - cos(theta); 1.0 when either vector is (near-)zero
//! * InnerProduct = - sum a_i b_i
//! * Manhattan    = sum |a_i - b_i|
//!
//! computed here in f64 from the f32 query and the bf16-rounded stored vector.
//! Nothing in this file calls the crate under test.

use anda_db_hnsw::DistanceMetric;
use std::collections::BTreeMap;

/// Rounds through bf16 exactly as `insert_f32` stores a vector.
pub fn round_bf16(v: &[f32]) -> Vec<f32> {
    v.iter().map(|x| half::bf16::from_f32(*x).to_f32()).collect()
}

#[derive(Clone, Default, Debug, PartialEq)]
pub struct VecModel {
    /// id -> stored (bf16-rounded) vector
    pub live: BTreeMap<u64, Vec<f32>>,
}

impl VecModel {
    pub fn insert(&mut self, id: u64, raw: &[f32]) {
        self.live.insert(id, round_bf16(raw));
    }
    pub fn remove(&mut self, id: u64) -> bool {
        self.live.remove(&id).is_some()
    }
    pub fn len(&self) -> usize {
        self.live.len()
    }
    pub fn is_empty(&self) -> bool {
        self.live.is_empty()
    }
    /// Stable key of the live set and its vectors.
    pub fn key(&self) -> u64 {
        let mut bytes = Vec::new();
        for (id, v) in &self.live {
            bytes.extend_from_slice(&id.to_le_bytes());
            for x in v {
                bytes.extend_from_slice(&x.to_bits().to_le_bytes());
            }
        }
        vcore::util::fnv64(&bytes)
    }
}

/// (distance, magnitude of the summed terms) in f64. The magnitude bounds
/// the absolute rounding error an f32 evaluation of the same formula can
/// have through cancellation (only InnerProduct can cancel; Cosine is
/// bounded by 2).
pub fn metric_f64(metric: DistanceMetric, q: &[f32], v: &[f32]) -> (f64, f64) {
    assert_eq!(q.len(), v.len());
    let it = || q.iter().zip(v.iter()).map(|(a, b)| (*a as f64, *b as f64));
    match metric {
        DistanceMetric::Euclidean => {
            let d = it().map(|(a, b)| (a - b) * (a - b)).sum::<f64>().sqrt();
            (d, d)
        }
        DistanceMetric::Manhattan => {
            let d = it().map(|(a, b)| (a - b).abs()).sum::<f64>();
            (d, d)
        }
        DistanceMetric::InnerProduct => {
            let d = -it().map(|(a, b)| a * b).sum::<f64>();
            let mag = it().map(|(a, b)| (a * b).abs()).sum::<f64>();
            (d, mag)
        }
        DistanceMetric::Cosine => {
            let dot = it().map(|(a, b)| a * b).sum::<f64>();
            let na = it().map(|(a, _)| a * a).sum::<f64>().sqrt();
            let nb = it().map(|(_, b)| b * b).sum::<f64>().sqrt();
            // "(near-)zero" as documented; the threshold is one f32 epsilon.
            if na < f32::EPSILON as f64 || nb < f32::EPSILON as f64 {
                (1.0, 1.0)
            } else {
                (1.0 - (dot / (na * nb)).clamp(-1.0, 1.0), 1.0)
            }
        }
    }
}

/// True when `got` equals the metric between `q` and `v` within 1e-3
/// relative (plus the f32 cancellation allowance explained at `metric_f64`).
pub fn distance_matches(metric: DistanceMetric, q: &[f32], v: &[f32], got: f32) -> bool {
    if !got.is_finite() {
        return false;
    }
    let (want, mag) = metric_f64(metric, q, v);
    let tol = 1e-3 * want.abs() + 1e-5 * mag + 1e-9;
    (got as f64 - want).abs() <= tol
}

#[derive(Clone, Debug)]
pub struct Fail {
    /// stable class of the failure: dead_id, duplicate_id, too_many, order,
    /// distance, len, search_error, ...
    pub kind: &'static str,
    pub detail: String,
}

impl Fail {
    pub fn new(kind: &'static str, detail: String) -> Fail {
        Fail { kind, detail }
    }
}

/// Soundness of ONE result list. `vectors_of(id)` gives the vectors the id
/// may legitimately hold (exactly one in an exact state; old and/or new in an
/// interrupted-flush image; none = the id is dead).
pub fn check_result(
    metric: DistanceMetric,
    q: &[f32],
    k: usize,
    res: &[(u64, f32)],
    vectors_of: &dyn Fn(u64) -> Vec<Vec<f32>>,
) -> Result<(), Fail> {
    if res.len() > k {
        return Err(Fail::new("too_many", format!("k={k} but {} results: {res:?}", res.len())));
    }
    let mut seen = std::collections::BTreeSet::new();
    for (i, (id, d)) in res.iter().enumerate() {
        if !seen.insert(*id) {
            return Err(Fail::new("duplicate_id", format!("id {id} twice in {res:?} (query {q:?}, k={k})")));
        }
        let cands = vectors_of(*id);
        if cands.is_empty() {
            return Err(Fail::new(
                "dead_id",
                format!("id {id} is not in the index but was returned: {res:?} (query {q:?}, k={k})"),
            ));
        }
        if !cands.iter().any(|v| distance_matches(metric, q, v, *d)) {
            let want: Vec<f64> = cands.iter().map(|v| metric_f64(metric, q, v).0).collect();
            return Err(Fail::new(
                "distance",
                format!("id {id}: reported distance {d} but {metric:?}(query {q:?}, stored {cands:?}) = {want:?}"),
            ));
        }
        if i > 0 && !(res[i - 1].1 <= *d) {
            return Err(Fail::new("order", format!("distances decrease at position {i}: {res:?} (query {q:?}, k={k})")));
        }
    }
    Ok(())
}

#[derive(Default, Clone, Debug)]
pub struct Tally {
    /// search calls compared with the oracle
    pub searches: u64,
    /// searches that returned fewer than min(k, live) results (informational:
    /// the property only bounds the result from above)
    pub short_results: u64,
    pub nonempty_results: u64,
    /// searches for which the completeness bound was the strongest possible,
    /// min(k, n): layer 0 strongly connected over the live nodes
    pub full_bound: u64,
    /// searches for which the exactness clause applied (R = n and beam >= n)
    pub exact_required: u64,
}

/// The three out-of-distribution queries: far away, the zero vector, and a
/// negative fractional direction not representable in bf16.
pub fn ood_queries(dim: usize) -> Vec<Vec<f32>> {
    let far: Vec<f32> = (0..dim).map(|i| if i % 2 == 0 { 1000.0 } else { -1000.0 }).collect();
    let zero = vec![0.0f32; dim];
    let frac: Vec<f32> = (0..dim).map(|i| -0.3337 - 0.0101 * i as f32).collect();
    vec![far, zero, frac]
}

fn too_few(q: &[f32], k: usize, res: &[(u64, f32)], r: usize) -> Fail {
    Fail::new(
        "too_few",
        format!(
            "search({q:?}, k={k}) returned {} results {res:?}, but from every live node at least {r} live nodes are reachable over layer-0 edges: \
             the documented layer-0 beam of width max(ef_search, k) must return min(k, {r}) = {} of them",
            res.len(),
            k.min(r)
        ),
    )
}

/// Completeness bound read off the graph (public `get_node_with`), not off
/// the search code: R = the minimum over all live nodes x of the number of
/// live nodes reachable from x along layer-0 edges (x included). Whatever
/// node the upper-layer descent lands on, the documented layer-0 beam of
/// width max(ef_search, k) only stops once it holds that many results or has
/// exhausted what is reachable, so every search must return at least
/// min(k, R) results. (On a strongly connected layer 0, R = n.)
pub fn min_forward_reach(index: &anda_db_hnsw::HnswIndex, model: &VecModel) -> usize {
    let mut adj: BTreeMap<u64, Vec<u64>> = BTreeMap::new();
    for id in model.live.keys() {
        let edges = index
            .get_node_with(*id, |n| n.neighbors.first().map(|l| l.iter().map(|(i, _)| *i).collect::<Vec<u64>>()).unwrap_or_default())
            .unwrap_or_default();
        adj.insert(*id, edges.into_iter().filter(|i| model.live.contains_key(i)).collect());
    }
    let mut best = usize::MAX;
    for start in adj.keys() {
        let mut seen = std::collections::BTreeSet::new();
        let mut stack = vec![*start];
        seen.insert(*start);
        while let Some(x) = stack.pop() {
            for y in &adj[&x] {
                if seen.insert(*y) {
                    stack.push(*y);
                }
            }
        }
        best = best.min(seen.len());
    }
    if best == usize::MAX { 0 } else { best }
}

/// Full soundness oracle of an index against `model` (and, for an
/// interrupted-flush image, a second model `alt`: an id may then hold either
/// vector and the element count is not compared).
pub fn check_index(
    index: &anda_db_hnsw::HnswIndex,
    metric: DistanceMetric,
    dim: usize,
    model: &VecModel,
    alt: Option<&VecModel>,
    tally: &mut Tally,
) -> Result<(), Fail> {
    // (R, configured ef_search): the configuration is read back from the index's metadata
    let min_results = if alt.is_none() { Some((min_forward_reach(index, model), index.metadata().config.ef_search)) } else { None };
    check_with(
        &|q, k| index.search_f32(q, k).map_err(|e| e.to_string()),
        (index.len(), index.stats().num_elements),
        metric,
        dim,
        model,
        alt,
        min_results,
        tally,
    )?;
    // the bf16 entry point `search`: same oracle, the query being the
    // bf16-rounded vector; one search per query with k = n + 1
    if alt.is_none() {
        let k = model.len() + 1;
        let mut queries: Vec<Vec<f32>> = model.live.values().cloned().collect();
        queries.extend(ood_queries(dim));
        for q in &queries {
            let qb: Vec<half::bf16> = q.iter().map(|x| half::bf16::from_f32(*x)).collect();
            let qf: Vec<f32> = qb.iter().map(|x| x.to_f32()).collect();
            tally.searches += 1;
            let res = index
                .search(&qb, k)
                .map_err(|e| Fail::new("search_error", format!("search({qf:?} as bf16, {k}) failed: {e}")))?;
            check_result(metric, &qf, k, &res, &|id| model.live.get(&id).cloned().into_iter().collect())?;
            if let Some((r, ef_search)) = min_results {
                if res.len() < k.min(r) {
                    return Err(too_few(&qf, k, &res, r));
                }
                if r == model.len() && ef_search.max(k) >= model.len() {
                    exact_top_k(metric, &qf, k, &res, model)?;
                }
            }
        }
    }
    Ok(())
}

/// Exactness clause. When layer 0 is strongly connected over the live nodes
/// (R = n) and the documented layer-0 beam max(ef_search, k) is at least n, the
/// beam cannot fill up before every node has been visited, whatever node the
/// descent lands on: the answer must be THE exact top-k, i.e. min(k, n)
/// results whose distances are the min(k, n) smallest brute-force distances
/// (compared as a sorted list, so exact ties between ids are free).
pub fn exact_top_k(metric: DistanceMetric, q: &[f32], k: usize, res: &[(u64, f32)], model: &VecModel) -> Result<(), Fail> {
    let mut want: Vec<(f64, f64, u64)> = model.live.iter().map(|(id, v)| { let (d, mag) = metric_f64(metric, q, v); (d, mag, *id) }).collect();
    want.sort_by(|a, b| a.0.partial_cmp(&b.0).unwrap().then(a.2.cmp(&b.2)));
    want.truncate(k);
    let bad = res.len() != want.len()
        || res.iter().zip(&want).any(|((_, got), (d, mag, _))| (*got as f64 - d).abs() > 1e-3 * d.abs() + 1e-5 * mag + 1e-9);
    if bad {
        return Err(Fail::new(
            "not_exact",
            format!(
                "search({q:?}, k={k}) = {res:?}, but every live node is reachable from every other over layer 0 and the beam max(ef_search, k) covers all {} nodes: \
                 the exact top-{k} by brute force is {:?}",
                model.len(),
                want.iter().map(|(d, _, id)| (*id, *d as f32)).collect::<Vec<_>>()
            ),
        ));
    }
    Ok(())
}

/// The same oracle over any search entry point (`search(query, k)`) and
/// element counts `(len, stats.num_elements)`.
pub fn check_with(
    search: &dyn Fn(&[f32], usize) -> Result<Vec<(u64, f32)>, String>,
    counts: (usize, u64),
    metric: DistanceMetric,
    dim: usize,
    model: &VecModel,
    alt: Option<&VecModel>,
    min_results: Option<(usize, usize)>,
    tally: &mut Tally,
) -> Result<(), Fail> {
    let mut queries: Vec<Vec<f32>> = model.live.values().cloned().collect();
    if let Some(alt) = alt {
        for v in alt.live.values() {
            if !queries.contains(v) {
                queries.push(v.clone());
            }
        }
    }
    queries.extend(ood_queries(dim));
    let vectors_of = |id: u64| -> Vec<Vec<f32>> {
        let mut out = Vec::new();
        if let Some(v) = model.live.get(&id) {
            out.push(v.clone());
        }
        if let Some(v) = alt.and_then(|a| a.live.get(&id)) {
            if !out.contains(v) {
                out.push(v.clone());
            }
        }
        out
    };
    let n = match alt {
        None => model.len(),
        Some(a) => {
            let mut ids: std::collections::BTreeSet<u64> = model.live.keys().copied().collect();
            ids.extend(a.live.keys().copied());
            ids.len()
        }
    };
    if alt.is_none() {
        let (len, stat) = counts;
        if len != model.len() || stat != model.len() as u64 {
            return Err(Fail::new(
                "len",
                format!("len()={len}, stats.num_elements={stat}, model holds {} live vectors {:?}", model.len(), model.live.keys()),
            ));
        }
    }
    for q in &queries {
        // k = 1..n+1 and, beyond the set, k = 10
        for k in (1..=n + 1).chain((n + 1 < 10).then_some(10)) {
            tally.searches += 1;
            let res = match search(q, k) {
                Ok(r) => r,
                Err(e) => return Err(Fail::new("search_error", format!("search_f32({q:?}, {k}) failed: {e}"))),
            };
            check_result(metric, q, k, &res, &vectors_of)?;
            if let Some((r, ef_search)) = min_results {
                if res.len() < k.min(r) {
                    return Err(too_few(q, k, &res, r));
                }
                if r == model.len() {
                    tally.full_bound += 1;
                    if ef_search.max(k) >= model.len() {
                        exact_top_k(metric, q, k, &res, model)?;
                        tally.exact_required += 1;
                    }
                }
            }
            if !res.is_empty() {
                tally.nonempty_results += 1;
            }
            if alt.is_none() && res.len() < k.min(model.len()) {
                tally.short_results += 1;
            }
        }
    }
    Ok(())
}

/// (layer, vector bits, per layer the edges (id, cached distance bits)) of one node.
type NodeImage = (u8, Vec<u16>, Vec<Vec<(u64, u16)>>);

fn node_image(index: &anda_db_hnsw::HnswIndex, id: u64) -> Option<NodeImage> {
    index
        .get_node_with(id, |n| {
            (
                n.layer,
                n.vector.iter().map(|x| x.to_bits()).collect(),
                n.neighbors.iter().map(|l| l.iter().map(|(i, d)| (*i, d.to_bits())).collect()).collect(),
            )
        })
        .ok()
}

/// "Nothing pending implies the durable image IS the live index": `loaded`
/// (built by `load_all` from the image) must hold the id set of `live` and,
/// for every id, the same stored vector, layer and adjacency lists — what a
/// node blob carries. Read through the public `node_ids` / `get_node_with`.
pub fn same_graph(live: &anda_db_hnsw::HnswIndex, loaded: &anda_db_hnsw::HnswIndex) -> Result<(), Fail> {
    // "metadata saved" (`has_pending_metadata_flush() == false`) means the durable metadata is the
    // live generation: same logical version, same top layer
    let (ms, ml) = (live.metadata().stats, loaded.metadata().stats);
    if (ms.version, ms.max_layer) != (ml.version, ml.max_layer) {
        return Err(Fail::new(
            "durable_metadata_differs",
            format!(
                "has_pending_metadata_flush() is false on the live index (metadata version {}, max_layer {}), yet the durable metadata loads as version {}, max_layer {}",
                ms.version, ms.max_layer, ml.version, ml.max_layer
            ),
        ));
    }
    let (a, b) = (live.node_ids(), loaded.node_ids());
    if a != b {
        return Err(Fail::new(
            "durable_ids_differ",
            format!("nothing is pending on the live index (no dirty node, metadata saved), yet the image loads with ids {b:?} while the live index holds {a:?}"),
        ));
    }
    for id in a {
        let (x, y) = (node_image(live, id), node_image(loaded, id));
        if x != y {
            let what = match (&x, &y) {
                (Some(x), Some(y)) if x.1 != y.1 => "durable_vector_differs",
                (Some(_), Some(_)) => "durable_edges_differ",
                _ => "durable_node_missing",
            };
            return Err(Fail::new(
                what,
                format!("nothing is pending on the live index, yet node {id} differs: live (layer, vector bits, edges) = {x:?}, loaded from the image = {y:?}"),
            ));
        }
    }
    Ok(())
}

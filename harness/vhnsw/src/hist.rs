//! Operation histories over a small fixed vector set, executed on the real
//! index next to the VecModel.

use crate::model::{Fail, Tally, VecModel, check_index};
use crate::sut::{Cfg, Fault, MemStore, Proto, Write, checkpoint_pass, flush_journal, load};
use anda_db_hnsw::{HnswError, HnswIndex};
use serde::{Deserialize, Serialize};

/// Deterministic SplitMix64 (same generator the repo's recall test uses).
pub struct SplitMix64(pub u64);

impl SplitMix64 {
    pub fn next_u64(&mut self) -> u64 {
        self.0 = self.0.wrapping_add(0x9E3779B97F4A7C15);
        let mut z = self.0;
        z = (z ^ (z >> 30)).wrapping_mul(0xBF58476D1CE4E5B9);
        z = (z ^ (z >> 27)).wrapping_mul(0x94D049BB133111EB);
        z ^ (z >> 31)
    }
    /// Uniform f32 in [0, 1).
    pub fn next_f32(&mut self) -> f32 {
        (self.next_u64() >> 40) as f32 / (1u64 << 24) as f32
    }
}

pub const N_IDS: u64 = 7;

/// The fixed seeded vector set: ids 1..=7, two variants each (variant 0 is
/// "the" vector of the id, variant 1 the different vector used by a
/// re-insert). Raw f32 values in [-2, 2) that are not bf16-representable, with
/// three planted special cases: id 2 duplicates id 1 (exact distance ties),
/// id 4 is the opposite of id 1 (cosine distance 2, positive inner-product
/// distance), id 3 variant 1 is the zero vector (the documented cosine special
/// case).
pub fn vector_set(dim: usize) -> Vec<[Vec<f32>; 2]> {
    let mut rng = SplitMix64(0xC12 + dim as u64);
    let mut gen_vec = || -> Vec<f32> { (0..dim).map(|_| rng.next_f32() * 4.0 - 2.0).collect() };
    let mut out: Vec<[Vec<f32>; 2]> = (0..N_IDS).map(|_| [gen_vec(), gen_vec()]).collect();
    out[1][0] = out[0][0].clone();
    out[3][0] = out[0][0].iter().map(|x| -x).collect();
    out[2][1] = vec![0.0; dim];
    out
}

#[derive(Clone, Copy, Debug, PartialEq, Eq, Serialize, Deserialize)]
pub enum Op {
    /// insert (or, after a remove, re-insert) `id` with its variant-`v` vector
    Insert { id: u64, v: u8 },
    Remove { id: u64 },
    /// complete flush (nodes, ids, metadata, purge) then replace the live
    /// index by the one loaded from the durable image
    FlushLoad,
}

impl Op {
    pub fn short(&self) -> String {
        match self {
            Op::Insert { id, v } => format!("ins({id},{})", if *v == 0 { "a" } else { "b" }),
            Op::Remove { id } => format!("rm({id})"),
            Op::FlushLoad => "flush+load".to_string(),
        }
    }
}

pub fn ops_short(ops: &[Op]) -> String {
    ops.iter().map(|o| o.short()).collect::<Vec<_>>().join(" ")
}

/// Named starting histories ("bases"): the enumerated operations continue
/// from there, so that depth-5 histories reach graphs with up to 7 nodes.
pub fn base_ops(base: &str) -> Vec<Op> {
    let (n, committed) = match base {
        "empty" => (0, false),
        "b4" => (4, false),
        "b7" => (7, false),
        // the same, followed by a completed flush + load ("committed")
        "b4c" => (4, true),
        "b7c" => (7, true),
        other => panic!("unknown base {other}"),
    };
    let mut ops: Vec<Op> = (1..=n).map(|id| Op::Insert { id, v: 0 }).collect();
    if committed {
        ops.push(Op::FlushLoad);
    }
    ops
}

pub const BASES: [&str; 3] = ["empty", "b4", "b7"];

/// What one complete flush did: image before, writes in order, and the two
/// model states (last completed flush / now) with the operations in between.
#[derive(Clone, Debug)]
pub struct FlushRecord {
    pub before: MemStore,
    pub journal: Vec<Write>,
    pub committed: VecModel,
    pub current: VecModel,
    pub window: Vec<Op>,
}

pub struct World {
    pub cfg: Cfg,
    pub vectors: Vec<[Vec<f32>; 2]>,
    pub index: HnswIndex,
    pub store: MemStore,
    pub model: VecModel,
    /// model at the last completed flush
    pub committed: VecModel,
    /// operations since the last completed flush
    pub window: Vec<Op>,
    /// variant an id was last inserted with (classifies re-inserts)
    pub last_variant: std::collections::BTreeMap<u64, u8>,
    pub clock: u64,
    /// which public checkpoint protocol `FlushLoad` (and the initial image) goes through
    pub proto: Proto,
}

impl World {
    /// Fresh world. Installs `seed` as the layer-generator seed of the current
    /// thread; like the database wrapper's `Hnsw::new`, the empty index is
    /// flushed once so that a durable image always exists.
    pub fn new(cfg: &Cfg, seed: u64) -> Result<World, Fail> {
        World::new_with(cfg, seed, Proto::FlushWith)
    }

    /// The same, every complete flush going through `proto`.
    pub fn new_with(cfg: &Cfg, seed: u64, proto: Proto) -> Result<World, Fail> {
        anda_db_utils::verif::set_random_seed(Some(seed));
        let index = cfg.new_index();
        let mut store = MemStore::default();
        let journal = complete_pass(&index, proto, 1)?;
        store.apply_all(&journal);
        Ok(World {
            cfg: cfg.clone(),
            vectors: vector_set(cfg.dim),
            index,
            store,
            model: VecModel::default(),
            committed: VecModel::default(),
            window: Vec::new(),
            last_variant: Default::default(),
            clock: 1,
            proto,
        })
    }

    pub fn vector(&self, id: u64, v: u8) -> &Vec<f32> {
        &self.vectors[(id - 1) as usize][v as usize]
    }

    /// Operations enabled in the current model state.
    pub fn enabled(&self) -> Vec<Op> {
        let mut out = Vec::new();
        for id in 1..=N_IDS {
            if self.model.live.contains_key(&id) {
                out.push(Op::Remove { id });
            } else {
                out.push(Op::Insert { id, v: 0 });
                out.push(Op::Insert { id, v: 1 });
            }
        }
        out.push(Op::FlushLoad);
        out
    }

    /// insert / reinsert_same / reinsert_diff / remove / flushload
    pub fn classify(&self, op: &Op) -> &'static str {
        match op {
            Op::Insert { id, v } => match self.last_variant.get(id) {
                None => "insert",
                Some(prev) if prev == v => "reinsert_same",
                Some(_) => "reinsert_diff",
            },
            Op::Remove { .. } => "remove",
            Op::FlushLoad => "flushload",
        }
    }

    /// Applies one operation to the real index and to the model. For
    /// `FlushLoad` the flush record is returned.
    pub fn apply(&mut self, op: &Op) -> Result<Option<FlushRecord>, Fail> {
        self.clock += 1;
        match op {
            Op::Insert { id, v } => {
                let raw = self.vector(*id, *v).clone();
                self.index
                    .insert_f32(*id, raw.clone(), self.clock)
                    .map_err(|e| Fail::new("op_error", format!("insert({id}) of an id not in the index failed: {e}")))?;
                self.model.insert(*id, &raw);
                self.last_variant.insert(*id, *v);
                self.window.push(*op);
                Ok(None)
            }
            Op::Remove { id } => {
                if !self.index.remove(*id, self.clock) {
                    return Err(Fail::new("op_error", format!("remove({id}) of a live id returned false")));
                }
                self.model.remove(*id);
                self.window.push(*op);
                Ok(None)
            }
            Op::FlushLoad => {
                let rec = self.flush_record()?;
                self.store.apply_all(&rec.journal);
                self.index = load(&self.store).map_err(|e| Fail::new("load_error", e))?;
                self.committed = self.model.clone();
                self.window.clear();
                Ok(Some(rec))
            }
        }
    }

    /// Runs the complete flush on the live index (the index commits its
    /// watermarks) and returns the record without touching `self.store`.
    pub fn flush_record(&mut self) -> Result<FlushRecord, Fail> {
        let journal = complete_pass(&self.index, self.proto, self.clock)?;
        Ok(FlushRecord {
            before: self.store.clone(),
            journal,
            committed: self.committed.clone(),
            current: self.model.clone(),
            window: self.window.clone(),
        })
    }

    pub fn check(&self, tally: &mut Tally) -> Result<(), Fail> {
        check_index(&self.index, self.cfg.metric, self.cfg.dim, &self.model, None, tally)
    }
}

/// One complete, fault-free checkpoint pass (persist step + purge) through
/// `proto`; the writes in issue order.
pub fn complete_pass(index: &HnswIndex, proto: Proto, now_ms: u64) -> Result<Vec<Write>, Fail> {
    if proto == Proto::FlushWith {
        return flush_journal(index, now_ms).map_err(|e| Fail::new("flush_error", e));
    }
    let pass = checkpoint_pass(index, proto, now_ms, Fault::None);
    match pass.error {
        Some(e) => Err(Fail::new("flush_error", format!("{e} failed without any injected fault"))),
        None => Ok(pass.writes),
    }
}

/// One step of the crash recovery the database applies to its vector index.
#[derive(Clone, Debug, PartialEq)]
pub enum RecoverStep {
    /// intent replay: remove by id (a no-op when absent)
    Remove(u64),
    /// intent replay: the document still exists, insert its current vector (must succeed)
    InsertMust(u64, Vec<f32>),
    /// repair scan: insert an added document, `AlreadyExists` is logged and ignored
    InsertIgnoreExists(u64, Vec<f32>),
}

/// What the database does with its vector index after a crash (reopen):
/// mutation-intent replay (`reconcile_mutation_intents`: every document
/// updated or removed since the last completed flush is removed from the
/// index by id and, if it still exists, inserted again with its current
/// vector) followed by the repair scan (`auto_repair_indexes` /
/// `repair_document`: every document added since the checkpoint is inserted,
/// `AlreadyExists` being logged and ignored). `window` = the operations since
/// the last completed flush, `current` = the documents as they are now.
pub fn recover_plan(vectors: &[[Vec<f32>; 2]], window: &[Op], current: &VecModel) -> Vec<RecoverStep> {
    let mut touched: Vec<u64> = Vec::new();
    let mut has_intent: std::collections::BTreeSet<u64> = Default::default();
    let mut last_variant: std::collections::BTreeMap<u64, u8> = Default::default();
    for op in window {
        match op {
            Op::Insert { id, v } => {
                if !touched.contains(id) {
                    touched.push(*id);
                }
                last_variant.insert(*id, *v);
            }
            Op::Remove { id } => {
                if !touched.contains(id) {
                    touched.push(*id);
                }
                has_intent.insert(*id);
            }
            Op::FlushLoad => {}
        }
    }
    let mut plan = Vec::new();
    // intent replay first
    for id in touched.iter().filter(|id| has_intent.contains(id)) {
        plan.push(RecoverStep::Remove(*id));
        if current.live.contains_key(id) {
            plan.push(RecoverStep::InsertMust(*id, vectors[(*id - 1) as usize][last_variant[id] as usize].clone()));
        }
    }
    // then the repair scan over the added documents
    for id in touched.iter().filter(|id| !has_intent.contains(id)) {
        plan.push(RecoverStep::InsertIgnoreExists(*id, vectors[(*id - 1) as usize][last_variant[id] as usize].clone()));
    }
    plan
}

/// Applies the recovery plan to a bare `HnswIndex`.
pub fn recover(index: &HnswIndex, vectors: &[[Vec<f32>; 2]], window: &[Op], current: &VecModel, now_ms: u64) -> Result<(), Fail> {
    for step in recover_plan(vectors, window, current) {
        match step {
            RecoverStep::Remove(id) => {
                index.remove(id, now_ms);
            }
            RecoverStep::InsertMust(id, raw) => index
                .insert_f32(id, raw, now_ms)
                .map_err(|e| Fail::new("recover_error", format!("re-index of updated document {id} after remove failed: {e}")))?,
            RecoverStep::InsertIgnoreExists(id, raw) => match index.insert_f32(id, raw, now_ms) {
                Ok(()) | Err(HnswError::AlreadyExists { .. }) => {}
                Err(e) => return Err(Fail::new("recover_error", format!("repair insert of added document {id} failed: {e}"))),
            },
        }
    }
    Ok(())
}

thread_local! {
    static IN_SUT: std::cell::Cell<bool> = const { std::cell::Cell::new(false) };
}

/// Runs `f`, turning a panic into a `Fail` of kind "panic".
pub fn no_panic<T>(f: impl FnOnce() -> Result<T, Fail>) -> Result<T, Fail> {
    IN_SUT.with(|c| c.set(true));
    let r = std::panic::catch_unwind(std::panic::AssertUnwindSafe(f));
    IN_SUT.with(|c| c.set(false));
    match r {
        Ok(r) => r,
        Err(p) => {
            let msg = p
                .downcast_ref::<String>()
                .cloned()
                .or_else(|| p.downcast_ref::<&str>().map(|s| s.to_string()))
                .unwrap_or_else(|| "panic".to_string());
            Err(Fail::new("panic", format!("panicked: {msg}")))
        }
    }
}

/// Keeps panic output of the code under test (inside `no_panic`) off the
/// console: those are reported as violations with the message instead. Any
/// other panic (harness bug) is still printed.
pub fn quiet_panics() {
    std::panic::set_hook(Box::new(|info| {
        if !IN_SUT.with(|c| c.get()) {
            eprintln!("harness panic: {info}");
        }
    }));
}

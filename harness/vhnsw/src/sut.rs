//! Driving the real `HnswIndex`: configurations, a trivial in-memory blob
//! store fed by the flush closures (every write journalled in order), load.

use anda_db_hnsw::{BoxError, DistanceMetric, HnswConfig, HnswIndex, SelectNeighborsStrategy};
use serde::{Deserialize, Serialize};
use std::cell::RefCell;
use std::collections::BTreeMap;
use std::rc::Rc;

pub const METRICS: [DistanceMetric; 4] = [
    DistanceMetric::Euclidean,
    DistanceMetric::Cosine,
    DistanceMetric::InnerProduct,
    DistanceMetric::Manhattan,
];
pub const STRATEGIES: [SelectNeighborsStrategy; 2] = [SelectNeighborsStrategy::Simple, SelectNeighborsStrategy::Heuristic];

/// One configuration of the index under test. The graph parameters are kept
/// tiny on purpose: with M=2 (4 edges on layer 0, pruning beyond that), a
/// construction beam of 3 and a search beam of 2, six to eight vectors are
/// enough to make pruning, multi-layer descent, dangling edges and
/// approximate (beam-limited) search all happen.
#[derive(Clone, Debug, Serialize, Deserialize, PartialEq)]
pub struct Cfg {
    pub dim: usize,
    pub metric: DistanceMetric,
    pub strategy: SelectNeighborsStrategy,
    pub reconnect_on_delete: bool,
    pub max_connections: u8,
    pub ef_construction: usize,
    pub ef_search: usize,
    pub max_layers: u8,
    /// `HnswConfig::scale_factor` (None = 1.0); > 1 makes upper layers denser
    #[serde(default)]
    pub scale_factor: Option<f64>,
}

impl Cfg {
    pub fn tight(dim: usize, metric: DistanceMetric, strategy: SelectNeighborsStrategy, reconnect: bool) -> Cfg {
        Cfg {
            dim,
            metric,
            strategy,
            reconnect_on_delete: reconnect,
            max_connections: 2,
            ef_construction: 3,
            ef_search: 2,
            max_layers: 4,
            scale_factor: None,
        }
    }
    /// A roomier graph: everything fits in the beams, so search is exact on
    /// these tiny sets; kept as a second regime in the thorough tier.
    pub fn roomy(dim: usize, metric: DistanceMetric, strategy: SelectNeighborsStrategy, reconnect: bool) -> Cfg {
        Cfg {
            max_connections: 4,
            ef_construction: 8,
            ef_search: 8,
            max_layers: 3,
            ..Cfg::tight(dim, metric, strategy, reconnect)
        }
    }
    pub fn hnsw_config(&self) -> HnswConfig {
        HnswConfig {
            dimension: self.dim,
            max_layers: self.max_layers,
            max_connections: self.max_connections,
            ef_construction: self.ef_construction,
            ef_search: self.ef_search,
            distance_metric: self.metric,
            scale_factor: self.scale_factor,
            select_neighbors_strategy: self.strategy,
            reconnect_on_delete: self.reconnect_on_delete,
        }
    }
    pub fn label(&self) -> String {
        let mut l = format!(
            "d{}/{:?}/{:?}/{}/M{}efc{}efs{}",
            self.dim,
            self.metric,
            self.strategy,
            if self.reconnect_on_delete { "reconnect" } else { "noreconnect" },
            self.max_connections,
            self.ef_construction,
            self.ef_search
        );
        // the two standard regimes keep their short label
        if !((self.max_connections == 2 && self.max_layers == 4) || (self.max_connections == 4 && self.max_layers == 3)) || self.scale_factor.is_some() {
            l.push_str(&format!("/L{}", self.max_layers));
        }
        if let Some(sf) = self.scale_factor {
            l.push_str(&format!("/sf{sf}"));
        }
        l
    }
    /// Tight regime with a small layer cap (and optionally a scale factor that
    /// makes high layer draws frequent): the layer generator's upper clamp is
    /// actually reached within a handful of inserts.
    pub fn layer_capped(&self, max_layers: u8, scale_factor: Option<f64>) -> Cfg {
        Cfg { max_layers, scale_factor, ..self.clone() }
    }
    pub fn new_index(&self) -> HnswIndex {
        HnswIndex::new("c12".to_string(), Some(self.hnsw_config()))
    }
}

/// All configurations of the soundness parts: dims x metrics x strategies x
/// reconnect on/off (x graph regime when `roomy` is set).
pub fn all_cfgs(dims: &[usize], roomy: bool) -> Vec<Cfg> {
    let mut out = Vec::new();
    for &dim in dims {
        for metric in METRICS {
            for strategy in STRATEGIES {
                for reconnect in [false, true] {
                    out.push(Cfg::tight(dim, metric, strategy, reconnect));
                    if roomy {
                        out.push(Cfg::roomy(dim, metric, strategy, reconnect));
                    }
                }
            }
        }
    }
    out
}

/// Configurations whose layer cap is reachable: tight regime x
/// (max_layers, scale_factor) pairs.
pub fn layer_cap_cfgs(dims: &[usize], metrics: &[DistanceMetric], caps: &[(u8, Option<f64>)]) -> Vec<Cfg> {
    let mut out = Vec::new();
    for c in all_cfgs(dims, false) {
        if !metrics.contains(&c.metric) {
            continue;
        }
        for (l, sf) in caps {
            out.push(c.layer_capped(*l, *sf));
        }
    }
    out
}

/// One durable write issued by a flush, in issue order.
#[derive(Clone, Debug, PartialEq)]
pub enum Write {
    Node(u64, Vec<u8>),
    Ids(Vec<u8>),
    Meta(Vec<u8>),
    DelNode(u64),
}

impl Write {
    pub fn label(&self) -> String {
        match self {
            Write::Node(id, d) => format!("put n_{id} ({}B)", d.len()),
            Write::Ids(d) => format!("put ids ({}B)", d.len()),
            Write::Meta(d) => format!("put meta ({}B)", d.len()),
            Write::DelNode(id) => format!("delete n_{id}"),
        }
    }
}

/// The durable image of one index: node blobs, the id bitmap, the metadata.
#[derive(Clone, Debug, Default, PartialEq)]
pub struct MemStore {
    pub nodes: BTreeMap<u64, Vec<u8>>,
    pub ids: Vec<u8>,
    pub meta: Vec<u8>,
}

impl MemStore {
    pub fn apply(&mut self, w: &Write) {
        match w {
            Write::Node(id, d) => {
                self.nodes.insert(*id, d.clone());
            }
            Write::Ids(d) => self.ids = d.clone(),
            Write::Meta(d) => self.meta = d.clone(),
            Write::DelNode(id) => {
                self.nodes.remove(id);
            }
        }
    }
    pub fn apply_all(&mut self, ws: &[Write]) {
        for w in ws {
            self.apply(w);
        }
    }
    /// store + journal[0..k]
    pub fn with_prefix(&self, ws: &[Write], k: usize) -> MemStore {
        let mut s = self.clone();
        s.apply_all(&ws[..k]);
        s
    }
}

/// Runs one complete flush of `index` the way the database wrapper does
/// (`flush_with`: node blobs, ids, metadata; then `purge_removed_nodes`) and
/// returns every write in issue order. Nothing is applied to a store here.
pub fn flush_journal(index: &HnswIndex, now_ms: u64) -> Result<Vec<Write>, String> {
    let journal: Rc<RefCell<Vec<Write>>> = Rc::new(RefCell::new(Vec::new()));
    let (j1, j2, j3, j4) = (journal.clone(), journal.clone(), journal.clone(), journal.clone());
    vcore::util::now(index.flush_with(
        now_ms,
        move |id, data| {
            j1.borrow_mut().push(Write::Node(id, data));
            std::future::ready(Ok::<bool, BoxError>(true))
        },
        move |data| {
            j2.borrow_mut().push(Write::Ids(data));
            std::future::ready(Ok::<(), BoxError>(()))
        },
        move |data| {
            j3.borrow_mut().push(Write::Meta(data));
            std::future::ready(Ok::<(), BoxError>(()))
        },
    ))
    .map_err(|e| format!("flush_with failed: {e}"))?;
    vcore::util::now(index.purge_removed_nodes(async |id| {
        j4.borrow_mut().push(Write::DelNode(id));
        Ok::<bool, BoxError>(true)
    }))
    .map_err(|e| format!("purge_removed_nodes failed: {e}"))?;
    let out = journal.borrow().clone();
    Ok(out)
}

/// Loads an index from a durable image exactly as `Hnsw::bootstrap` does
/// (`load_all` with a loader that answers `None` for a missing blob).
pub fn load(store: &MemStore) -> Result<HnswIndex, String> {
    let nodes = &store.nodes;
    vcore::util::now(HnswIndex::load_all(&store.meta[..], &store.ids[..], async |id: u64| Ok(nodes.get(&id).cloned())))
        .map_err(|e| format!("load_all failed: {e}"))
}

/// Position of the metadata write (the commit record) in a journal.
pub fn commit_pos(journal: &[Write]) -> Option<usize> {
    journal.iter().position(|w| matches!(w, Write::Meta(_)))
}

/// Like `flush_journal`, but `hook(call)` runs at the start of every write
/// closure of `flush_with` (call 0.. = node writes in order, then ids, then
/// metadata), i.e. after the flush captured its snapshot and while its I/O is
/// in flight — the window in which the index documents that mutations may
/// proceed. The purge that follows is not hooked (it runs after the commit).
pub fn flush_journal_hooked(index: &HnswIndex, now_ms: u64, hook: &dyn Fn(usize)) -> Result<Vec<Write>, String> {
    let journal: Rc<RefCell<Vec<Write>>> = Rc::new(RefCell::new(Vec::new()));
    let calls: Rc<RefCell<usize>> = Rc::new(RefCell::new(0));
    let tick = |calls: &Rc<RefCell<usize>>| {
        let c = *calls.borrow();
        *calls.borrow_mut() = c + 1;
        hook(c);
    };
    let (j1, j2, j3, j4) = (journal.clone(), journal.clone(), journal.clone(), journal.clone());
    let (c1, c2, c3) = (calls.clone(), calls.clone(), calls.clone());
    vcore::util::now(index.flush_with(
        now_ms,
        |id, data| {
            tick(&c1);
            j1.borrow_mut().push(Write::Node(id, data));
            std::future::ready(Ok::<bool, BoxError>(true))
        },
        |data| {
            tick(&c2);
            j2.borrow_mut().push(Write::Ids(data));
            std::future::ready(Ok::<(), BoxError>(()))
        },
        |data| {
            tick(&c3);
            j3.borrow_mut().push(Write::Meta(data));
            std::future::ready(Ok::<(), BoxError>(()))
        },
    ))
    .map_err(|e| format!("flush_with failed: {e}"))?;
    vcore::util::now(index.purge_removed_nodes(async |id| {
        j4.borrow_mut().push(Write::DelNode(id));
        Ok::<bool, BoxError>(true)
    }))
    .map_err(|e| format!("purge_removed_nodes failed: {e}"))?;
    let out = journal.borrow().clone();
    Ok(out)
}

/// `flush_with` whose node callback requests the documented cooperative stop
/// (`Ok(false)`, nothing written for that node) at its `stop_at`-th call.
/// Returns the writes that happened and whether the stop was reached. No
/// purge afterwards (the flush did not complete).
pub fn flush_journal_stopping(index: &HnswIndex, now_ms: u64, stop_at: usize) -> Result<(Vec<Write>, bool), String> {
    let journal: Rc<RefCell<Vec<Write>>> = Rc::new(RefCell::new(Vec::new()));
    let calls: Rc<RefCell<usize>> = Rc::new(RefCell::new(0));
    let stopped: Rc<RefCell<bool>> = Rc::new(RefCell::new(false));
    let (j1, j2, j3) = (journal.clone(), journal.clone(), journal.clone());
    let (c1, s1) = (calls.clone(), stopped.clone());
    vcore::util::now(index.flush_with(
        now_ms,
        move |id, data| {
            let c = *c1.borrow();
            *c1.borrow_mut() = c + 1;
            if c == stop_at {
                *s1.borrow_mut() = true;
                return std::future::ready(Ok::<bool, BoxError>(false));
            }
            j1.borrow_mut().push(Write::Node(id, data));
            std::future::ready(Ok::<bool, BoxError>(true))
        },
        move |data| {
            j2.borrow_mut().push(Write::Ids(data));
            std::future::ready(Ok::<(), BoxError>(()))
        },
        move |data| {
            j3.borrow_mut().push(Write::Meta(data));
            std::future::ready(Ok::<(), BoxError>(()))
        },
    ))
    .map_err(|e| format!("flush_with failed: {e}"))?;
    let out = journal.borrow().clone();
    let st = *stopped.borrow();
    Ok((out, st))
}

// ---------------------------------------------------------------------------
// Every public checkpoint protocol of `HnswIndex`, with one injected fault.
// ---------------------------------------------------------------------------

/// The four ways the crate's public API lets a caller persist one generation
/// (all documented as nodes -> ids -> metadata, metadata being the commit
/// record), each followed by `purge_removed_nodes` once the persist step
/// reported success.
#[derive(Clone, Copy, Debug, PartialEq, Eq, Serialize, Deserialize)]
pub enum Proto {
    /// `flush_with(now, node_f, ids_f, metadata_f)` (what `anda_db` uses)
    FlushWith,
    /// `flush(metadata_writer, ids_writer, now, node_f)` (crate docs, example, `Hnsw::new`)
    Flush,
    /// `store_dirty_nodes(f)`, `store_ids(w)`, `store_metadata(w, now)`
    Granular,
    /// `store_dirty_nodes(f)`, `store_ids(w)`, `store_metadata_with(now, f)`
    GranularWith,
}

pub const PROTOS: [Proto; 4] = [Proto::FlushWith, Proto::Flush, Proto::Granular, Proto::GranularWith];

/// One fault injected into one checkpoint pass. `*Stop(j)`: the j-th call of
/// that callback answers `Ok(false)` (documented cooperative stop, nothing is
/// written for that call); `*Err(j)` / `IdsErr` / `MetaErr`: the call (or the
/// writer) fails, nothing is written for it.
#[derive(Clone, Copy, Debug, PartialEq, Eq, Serialize, Deserialize)]
pub enum Fault {
    None,
    NodeStop(usize),
    NodeErr(usize),
    IdsErr,
    MetaErr,
    PurgeStop(usize),
    PurgeErr(usize),
}

impl Fault {
    pub fn class(&self) -> &'static str {
        match self {
            Fault::None => "none",
            Fault::NodeStop(_) => "node_stop",
            Fault::NodeErr(_) => "node_err",
            Fault::IdsErr => "ids_err",
            Fault::MetaErr => "meta_err",
            Fault::PurgeStop(_) => "purge_stop",
            Fault::PurgeErr(_) => "purge_err",
        }
    }
    pub fn is_injected_error(&self) -> bool {
        matches!(self, Fault::NodeErr(_) | Fault::IdsErr | Fault::MetaErr | Fault::PurgeErr(_))
    }
}

/// A point INSIDE a checkpoint pass at which the caller's own task can run
/// (every callback is an await point; the granular protocols are separate
/// API calls with caller code in between).
#[derive(Clone, Copy, Debug, PartialEq, Eq, Serialize, Deserialize)]
pub enum Site {
    /// inside the j-th node callback, before it acknowledges the write
    Node(usize),
    /// FlushWith: inside the ids callback; Granular / GranularWith: between
    /// `store_dirty_nodes` and `store_ids`. (The two writers of `flush` are
    /// synchronous `io::Write`s without an await: no site.)
    Ids,
    /// FlushWith / GranularWith: inside the metadata callback; Granular:
    /// between `store_ids` and `store_metadata`.
    Meta,
    /// inside the j-th `purge_removed_nodes` callback, before it acknowledges the delete
    Purge(usize),
}

impl Site {
    pub fn class(&self) -> &'static str {
        match self {
            Site::Node(_) => "node_cb",
            Site::Ids => "ids_cb",
            Site::Meta => "meta_cb",
            Site::Purge(_) => "purge_cb",
        }
    }
}

/// What one checkpoint pass did.
#[derive(Clone, Debug, Default)]
pub struct Pass {
    /// durable writes in the order they were issued
    pub writes: Vec<Write>,
    /// the injected fault was reached
    pub fault_hit: bool,
    /// the persist step ran to its end without stop or error (so the purge was run)
    pub persisted: bool,
    /// an API call returned an error (text); expected iff an error was injected and reached
    pub error: Option<String>,
    /// calls of the node callback / the purge callback (including the faulted one)
    pub node_calls: usize,
    pub purge_calls: usize,
    /// the sites (other than node / purge callbacks) this protocol offered
    pub ids_site: bool,
    pub meta_site: bool,
}

/// `std::io::Write` that keeps what it is given (one durable object) and
/// remembers when it was first written to; `fail` makes every write fail.
pub struct RecWriter<'a> {
    pub buf: Vec<u8>,
    pub first_seq: Option<u64>,
    pub asked: bool,
    fail: bool,
    seq: &'a std::cell::Cell<u64>,
}

impl<'a> RecWriter<'a> {
    pub fn new(seq: &'a std::cell::Cell<u64>, fail: bool) -> Self {
        RecWriter { buf: Vec::new(), first_seq: None, asked: false, fail, seq }
    }
}

impl std::io::Write for RecWriter<'_> {
    fn write(&mut self, data: &[u8]) -> std::io::Result<usize> {
        self.asked = true;
        if self.fail {
            return Err(std::io::Error::other("injected writer failure"));
        }
        if self.first_seq.is_none() {
            let s = self.seq.get();
            self.seq.set(s + 1);
            self.first_seq = Some(s);
        }
        self.buf.extend_from_slice(data);
        Ok(data.len())
    }
    fn flush(&mut self) -> std::io::Result<()> {
        Ok(())
    }
}

fn injected() -> BoxError {
    "injected callback failure".into()
}

/// Runs ONE checkpoint pass of `proto` on `index` with `fault` injected:
/// the persist step, and — only when that step ran to its end without stop or
/// error, as the crate documents — `purge_removed_nodes`. Whatever reaches a
/// callback or a writer counts as durable (a non-empty writer = that object
/// was replaced) and is returned in issue order. Nothing is applied to a
/// store here.
pub fn checkpoint_pass(index: &HnswIndex, proto: Proto, now_ms: u64, fault: Fault) -> Pass {
    checkpoint_pass_hooked(index, proto, now_ms, fault, &|_, _| {})
}

/// The same; `hook(site, id)` runs at every `Site` of the pass (id = the node
/// being written / the blob being deleted), from inside the callback and
/// BEFORE the callback records its write and answers — i.e. while the index's
/// own future is suspended at that await. The hook may mutate the index.
pub fn checkpoint_pass_hooked(index: &HnswIndex, proto: Proto, now_ms: u64, fault: Fault, hook: &dyn Fn(Site, Option<u64>)) -> Pass {
    use std::cell::Cell;
    let ids_site = Cell::new(false);
    let meta_site = Cell::new(false);
    let seq = Cell::new(0u64);
    let tick = || {
        let s = seq.get();
        seq.set(s + 1);
        s
    };
    let events: RefCell<Vec<(u64, Write)>> = RefCell::new(Vec::new());
    let node_calls = Cell::new(0usize);
    let purge_calls = Cell::new(0usize);
    let hit = Cell::new(false);
    let stopped = Cell::new(false);
    let mut error: Option<String> = None;

    // the node callback shared by all protocols
    let node_cb = |id: u64, data: Vec<u8>| -> Result<bool, BoxError> {
        let c = node_calls.get();
        node_calls.set(c + 1);
        hook(Site::Node(c), Some(id));
        match fault {
            Fault::NodeStop(j) if j == c => {
                hit.set(true);
                stopped.set(true);
                Ok(false)
            }
            Fault::NodeErr(j) if j == c => {
                hit.set(true);
                Err(injected())
            }
            _ => {
                let s = tick();
                events.borrow_mut().push((s, Write::Node(id, data)));
                Ok(true)
            }
        }
    };

    let mut persisted = false;
    match proto {
        Proto::FlushWith => {
            let r = vcore::util::now(index.flush_with(
                now_ms,
                |id, data| std::future::ready(node_cb(id, data)),
                |data| {
                    ids_site.set(true);
                    hook(Site::Ids, None);
                    std::future::ready(if fault == Fault::IdsErr {
                        hit.set(true);
                        Err(injected())
                    } else {
                        let s = tick();
                        events.borrow_mut().push((s, Write::Ids(data)));
                        Ok(())
                    })
                },
                |data| {
                    meta_site.set(true);
                    hook(Site::Meta, None);
                    std::future::ready(if fault == Fault::MetaErr {
                        hit.set(true);
                        Err(injected())
                    } else {
                        let s = tick();
                        events.borrow_mut().push((s, Write::Meta(data)));
                        Ok(())
                    })
                },
            ));
            match r {
                Ok(_) => persisted = !stopped.get(),
                Err(e) => error = Some(format!("flush_with: {e}")),
            }
        }
        Proto::Flush => {
            let mut meta_w = RecWriter::new(&seq, fault == Fault::MetaErr);
            let mut ids_w = RecWriter::new(&seq, fault == Fault::IdsErr);
            let r = vcore::util::now(index.flush(&mut meta_w, &mut ids_w, now_ms, async |id, data: &[u8]| node_cb(id, data.to_vec())));
            if (fault == Fault::MetaErr && meta_w.asked) || (fault == Fault::IdsErr && ids_w.asked) {
                hit.set(true);
            }
            if !ids_w.buf.is_empty() {
                events.borrow_mut().push((ids_w.first_seq.unwrap(), Write::Ids(std::mem::take(&mut ids_w.buf))));
            }
            if !meta_w.buf.is_empty() {
                events.borrow_mut().push((meta_w.first_seq.unwrap(), Write::Meta(std::mem::take(&mut meta_w.buf))));
            }
            match r {
                Ok(_) => persisted = !stopped.get(),
                Err(e) => error = Some(format!("flush: {e}")),
            }
        }
        Proto::Granular | Proto::GranularWith => 'g: {
            // like the crate's own orchestrator: ids and metadata only when something is outstanding
            if !index.has_dirty_nodes() && !index.has_pending_metadata_flush() {
                persisted = true;
                break 'g;
            }
            let r = vcore::util::now(index.store_dirty_nodes(async |id, data: &[u8]| node_cb(id, data.to_vec())));
            if let Err(e) = r {
                error = Some(format!("store_dirty_nodes: {e}"));
                break 'g;
            }
            if stopped.get() {
                break 'g;
            }
            ids_site.set(true);
            hook(Site::Ids, None);
            let mut ids_w = RecWriter::new(&seq, fault == Fault::IdsErr);
            let r = index.store_ids(&mut ids_w);
            if fault == Fault::IdsErr && ids_w.asked {
                hit.set(true);
            }
            if let Err(e) = r {
                error = Some(format!("store_ids: {e}"));
                break 'g;
            }
            events.borrow_mut().push((ids_w.first_seq.unwrap_or_else(&tick), Write::Ids(std::mem::take(&mut ids_w.buf))));
            if proto == Proto::Granular {
                meta_site.set(true);
                hook(Site::Meta, None);
                let mut meta_w = RecWriter::new(&seq, fault == Fault::MetaErr);
                let r = index.store_metadata(&mut meta_w, now_ms);
                if fault == Fault::MetaErr && meta_w.asked {
                    hit.set(true);
                }
                match r {
                    Ok(true) => events.borrow_mut().push((meta_w.first_seq.unwrap_or_else(&tick), Write::Meta(std::mem::take(&mut meta_w.buf)))),
                    Ok(false) => {}
                    Err(e) => {
                        error = Some(format!("store_metadata: {e}"));
                        break 'g;
                    }
                }
            } else {
                let r = vcore::util::now(index.store_metadata_with(now_ms, async |data: &[u8]| {
                    meta_site.set(true);
                    hook(Site::Meta, None);
                    if fault == Fault::MetaErr {
                        hit.set(true);
                        Err(injected())
                    } else {
                        let s = tick();
                        events.borrow_mut().push((s, Write::Meta(data.to_vec())));
                        Ok(())
                    }
                }));
                if let Err(e) = r {
                    error = Some(format!("store_metadata_with: {e}"));
                    break 'g;
                }
            }
            persisted = true;
        }
    }

    if persisted {
        let r = vcore::util::now(index.purge_removed_nodes(async |id| {
            let c = purge_calls.get();
            purge_calls.set(c + 1);
            hook(Site::Purge(c), Some(id));
            match fault {
                Fault::PurgeStop(j) if j == c => {
                    hit.set(true);
                    Ok(false)
                }
                Fault::PurgeErr(j) if j == c => {
                    hit.set(true);
                    Err(injected())
                }
                _ => {
                    let s = tick();
                    events.borrow_mut().push((s, Write::DelNode(id)));
                    Ok(true)
                }
            }
        }));
        if let Err(e) = r {
            error = Some(format!("purge_removed_nodes: {e}"));
        }
    }

    let mut ev = events.into_inner();
    ev.sort_by_key(|(s, _)| *s);
    Pass {
        writes: ev.into_iter().map(|(_, w)| w).collect(),
        fault_hit: hit.get(),
        persisted,
        error,
        node_calls: node_calls.get(),
        purge_calls: purge_calls.get(),
        ids_site: ids_site.get(),
        meta_site: meta_site.get(),
    }
}

/// Nothing is pending on the live index: no dirty node, metadata saved.
pub fn nothing_pending(index: &HnswIndex) -> bool {
    !index.has_dirty_nodes() && !index.has_pending_metadata_flush()
}

/// Nothing pending and no tombstone waiting for its purge.
pub fn quiescent(index: &HnswIndex) -> bool {
    nothing_pending(index) && !index.has_removed_nodes()
}
